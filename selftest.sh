#!/bin/bash
# Determinism self-test of the simulators (run through ./check selftest [quick|thorough]).
# Every engine executes the same seeds twice, in separate processes, with 1 and with 16 workers;
# the per-run digests (hash of the full event log and all observations; for procsim also the
# interposer's decision trace and the tool's stdout) must be identical.
set -u
tier="${1:-quick}"
VSIM="$VERIF_BUILD/target/release/vsim"
export VERIF_NO_EVIDENCE=1 VERIF_SKIP_MIRI=1
D="$VERIF_DIR/.build/selftest.$$"; mkdir -p "$D"; trap 'rm -rf "$D"' EXIT
fail=0
for seed in 20261003 1 987654321; do
  for p in C05 C08 C07 C17 C20; do
    case "$tier:$p" in
      quick:C05|quick:C08) runs=2000;; quick:C07) runs=60;; quick:C17) runs=30;; quick:C20) runs=300;;
      *:C05|*:C08) runs=50000;; *:C07) runs=1500;; *:C17) runs=400;; *:C20) runs=4000;;
    esac
    VERIF_SEED=$seed VERIF_RUNS=$runs VERIF_WORKERS=1  VERIF_DIGESTS_OUT="$D/a" "$VSIM" check $p quick > "$D/log.a" 2>&1; ra=$?
    VERIF_SEED=$seed VERIF_RUNS=$runs VERIF_WORKERS=16 VERIF_DIGESTS_OUT="$D/b" "$VSIM" check $p quick > "$D/log.b" 2>&1; rb=$?
    n=$(wc -l < "$D/a")
    if [ $ra -ne $rb ] || ! cmp -s "$D/a" "$D/b" || [ "$n" -ne "$runs" ]; then
      echo "NONDETERMINISM property=$p seed=$seed runs=$runs exit=$ra/$rb digests=$n first-diff: $(diff "$D/a" "$D/b" | head -3 | tr '\n' ' ')"
      fail=1
    else
      echo "deterministic property=$p seed=$seed runs=$runs (1 vs 16 workers, separate processes): $n identical run digests, exit=$ra"
    fi
  done
done
[ $fail = 0 ] && echo "SELFTEST OK" || { echo "SELFTEST FAILED"; exit 2; }
