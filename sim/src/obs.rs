//! Observation of a `Sentence` through its public API only. Every accessor runs under its
//! own `catch_unwind`, so a report names the accessor that failed.

use std::cell::RefCell;
use std::panic::{catch_unwind, AssertUnwindSafe};

use vaporetto::{CharacterBoundary, Sentence};

use crate::rng::Fnv;

thread_local! {
    pub static LAST_PANIC: RefCell<String> = const { RefCell::new(String::new()) };
}

/// Installs a quiet panic hook that remembers the last message (per thread).
pub fn install_quiet_hook() {
    std::panic::set_hook(Box::new(|info| {
        let msg = if let Some(s) = info.payload().downcast_ref::<&str>() {
            (*s).to_string()
        } else if let Some(s) = info.payload().downcast_ref::<String>() {
            s.clone()
        } else {
            "<non-string panic>".to_string()
        };
        let loc = info.location().map(|l| format!("{}:{}", l.file(), l.line())).unwrap_or_default();
        LAST_PANIC.with(|p| *p.borrow_mut() = format!("{msg} @ {loc}"));
    }));
}

pub fn last_panic() -> String {
    LAST_PANIC.with(|p| p.borrow().clone())
}

/// Runs `f`, mapping a panic to `None`.
pub fn guarded<T>(f: impl FnOnce() -> T) -> Option<T> {
    catch_unwind(AssertUnwindSafe(f)).ok()
}

/// Value or "panicked".
#[derive(Clone, Debug, PartialEq, Eq)]
pub enum O<T> {
    V(T),
    P,
}

impl<T> O<T> {
    pub fn of(f: impl FnOnce() -> T) -> Self {
        match guarded(f) {
            Some(v) => O::V(v),
            None => O::P,
        }
    }
    pub fn is_panic(&self) -> bool {
        matches!(self, O::P)
    }
    pub fn value(&self) -> Option<&T> {
        match self {
            O::V(v) => Some(v),
            O::P => None,
        }
    }
}

pub type Cands = Vec<Vec<Vec<(String, i32)>>>;

#[derive(Clone, Debug, PartialEq, Eq)]
pub struct SentObs {
    pub raw: O<String>,
    pub types: O<Vec<u8>>,
    pub bounds: O<Vec<u8>>,
    pub tags: O<Vec<Option<String>>>,
    pub n_tags: O<usize>,
    pub scores: O<Vec<i32>>,
    pub spans: O<Vec<(usize, usize, String)>>,
    pub tok_tags: O<Vec<Vec<Option<String>>>>,
    pub tok_text: O<String>,
    pub part_text: O<String>,
    pub cands: Option<O<Cands>>,
}

fn b2u(b: CharacterBoundary) -> u8 {
    match b {
        CharacterBoundary::NotWordBoundary => 0,
        CharacterBoundary::WordBoundary => 1,
        CharacterBoundary::Unknown => 2,
    }
}

pub fn observe(s: &Sentence, with_cands: bool) -> SentObs {
    let raw = O::of(|| s.as_raw_text().to_string());
    let cap = raw.value().map(|r| r.chars().count() + 2).unwrap_or(64);
    SentObs {
        raw,
        types: O::of(|| s.char_types().to_vec()),
        bounds: O::of(|| s.boundaries().iter().map(|&b| b2u(b)).collect()),
        tags: O::of(|| s.tags().iter().map(|t| t.as_ref().map(|c| c.to_string())).collect()),
        n_tags: O::of(|| s.n_tags()),
        scores: O::of(|| s.boundary_scores().to_vec()),
        spans: O::of(|| {
            let mut v = vec![];
            for t in s.iter_tokens() {
                v.push((t.start(), t.end(), t.surface().to_string()));
                assert!(v.len() <= cap, "token iterator does not terminate");
            }
            v
        }),
        tok_tags: O::of(|| {
            let mut v = vec![];
            for t in s.iter_tokens() {
                v.push(t.tags().iter().map(|t| t.as_ref().map(|c| c.to_string())).collect());
                assert!(v.len() <= cap, "token iterator does not terminate");
            }
            v
        }),
        tok_text: O::of(|| {
            let mut b = String::from("junk");
            s.write_tokenized_text(&mut b);
            b
        }),
        part_text: O::of(|| {
            let mut b = String::from("junk");
            s.write_partial_annotation_text(&mut b);
            b
        }),
        cands: with_cands.then(|| {
            O::of(|| {
                let mut v = vec![];
                for t in s.iter_tokens() {
                    v.push(
                        t.tag_candidates()
                            .into_iter()
                            .map(|c| c.into_iter().map(|(t, s)| (t.to_string(), s)).collect())
                            .collect(),
                    );
                    assert!(v.len() <= cap, "token iterator does not terminate");
                }
                v
            })
        }),
    }
}

impl SentObs {
    /// Name of the first accessor whose observation differs.
    pub fn first_diff(&self, o: &SentObs) -> Option<&'static str> {
        if self.raw != o.raw {
            return Some("as_raw_text");
        }
        if self.types != o.types {
            return Some("char_types");
        }
        if self.bounds != o.bounds {
            return Some("boundaries");
        }
        if self.n_tags != o.n_tags {
            return Some("n_tags");
        }
        if self.tags != o.tags {
            return Some("tags");
        }
        if self.scores != o.scores {
            return Some("boundary_scores");
        }
        if self.spans != o.spans {
            return Some("iter_tokens");
        }
        if self.tok_tags != o.tok_tags {
            return Some("token_tags");
        }
        if self.tok_text != o.tok_text {
            return Some("write_tokenized_text");
        }
        if self.part_text != o.part_text {
            return Some("write_partial_annotation_text");
        }
        if self.cands != o.cands {
            return Some("tag_candidates");
        }
        None
    }

    /// Name of the first accessor that panicked.
    pub fn first_panic(&self) -> Option<&'static str> {
        if self.raw.is_panic() {
            return Some("as_raw_text");
        }
        if self.types.is_panic() {
            return Some("char_types");
        }
        if self.bounds.is_panic() {
            return Some("boundaries");
        }
        if self.n_tags.is_panic() {
            return Some("n_tags");
        }
        if self.tags.is_panic() {
            return Some("tags");
        }
        if self.scores.is_panic() {
            return Some("boundary_scores");
        }
        if self.spans.is_panic() {
            return Some("iter_tokens");
        }
        if self.tok_tags.is_panic() {
            return Some("token_tags");
        }
        if self.tok_text.is_panic() {
            return Some("write_tokenized_text");
        }
        if self.part_text.is_panic() {
            return Some("write_partial_annotation_text");
        }
        if matches!(self.cands, Some(O::P)) {
            return Some("tag_candidates");
        }
        None
    }

    /// Structural invariants of the statement: one type per character, one label per adjacent
    /// pair, characters x tag-count tag slots.
    pub fn structural(&self) -> Option<&'static str> {
        let (Some(raw), Some(types), Some(bounds), Some(tags), Some(n)) =
            (self.raw.value(), self.types.value(), self.bounds.value(), self.tags.value(), self.n_tags.value())
        else {
            return None;
        };
        let chars = raw.chars().count();
        if chars == 0 {
            return Some("empty-text");
        }
        if types.len() != chars {
            return Some("char_types-len");
        }
        if bounds.len() + 1 != chars {
            return Some("boundaries-len");
        }
        if tags.len() != chars * n {
            return Some("tags-len");
        }
        None
    }

    pub fn digest(&self, h: &mut Fnv) {
        h.str(&format!("{:?}", self));
    }
}
