//! C07: model files round-trip; partial or foreign files are rejected (`iosim`).
//!
//! One run = one model (generated as bytes, or a real file) taken through scenarios S1..S8.
//! S3/S5/S6/S7 enumerate every crash point of that model; schedules, suffixes and texts are
//! seeded and stored in the plan.

use std::io::BufReader;

use serde::{Deserialize, Serialize};
use serde_json::json;
use vaporetto::{Model, Predictor, Sentence};

use crate::common::*;
use crate::gen;
use crate::iosim::*;
use crate::mmodel::{gen_model, MModel, ModelKnobs, MODEL_MAGIC};
use crate::obs::{guarded, last_panic, observe};
use crate::rng::{run_seed, Fnv, Rng};

pub const TAG: u64 = 0xC07;

#[derive(Clone, Debug, PartialEq, Eq, Serialize, Deserialize)]
pub enum ModelSrc {
    Gen(MModel),
    File { name: String, bytes: Vec<u8> },
}

impl ModelSrc {
    pub fn bytes(&self) -> Vec<u8> {
        match self {
            ModelSrc::Gen(m) => m.to_bytes(),
            ModelSrc::File { bytes, .. } => bytes.clone(),
        }
    }
}

#[derive(Clone, Debug, PartialEq, Eq, Serialize, Deserialize)]
pub struct Only {
    pub scenario: String,
    pub p: usize,
}

#[derive(Clone, Debug, PartialEq, Eq, Serialize, Deserialize)]
pub struct C07Plan {
    pub src: ModelSrc,
    pub write_scheds: Vec<Sched>,
    /// (schedule, BufReader capacity; 0 = hand the faulty reader to Model::read directly)
    pub read_scheds: Vec<(Sched, u16)>,
    pub chunk_sched: Sched,
    pub suffixes: Vec<Vec<u8>>,
    pub texts: Vec<String>,
    #[serde(default)]
    pub only: Option<Only>,
    /// a model of tens of megabytes: only the fault-free round trip through every API is run
    #[serde(default)]
    pub giant: bool,
}

pub fn real_files() -> Vec<(String, Vec<u8>)> {
    let mut v = vec![];
    let repo = repo_dir();
    if let Ok(b) = std::fs::read(repo.join("resources/model.bin")) {
        v.push(("resources/model.bin".to_string(), b));
    }
    #[cfg(feature = "ffi")]
    if let Ok(f) = std::fs::File::open(repo.join("vaporetto_tantivy/test_model/model.zst")) {
        if let Ok(b) = zstd::decode_all(f) {
            v.push(("vaporetto_tantivy/test_model/model.zst (decompressed)".to_string(), b));
        }
    }
    v
}

pub fn plan_for(seed: u64, run: u64, files: &[(String, Vec<u8>)]) -> C07Plan {
    let mut rng = Rng::new(run_seed(seed, TAG, run));
    let src = if (run as usize) < files.len() {
        let (name, bytes) = files[run as usize].clone();
        ModelSrc::File { name, bytes }
    } else {
        // mostly small models (every offset is enumerated); one in ten medium; one in 150 larger
        // than the 8 KiB buffers of std::io, whose crash points are enumerated around the buffer
        // boundaries, at both ends and on a stride in between
        let k = ModelKnobs {
            max_entries: if run % 150 == 149 { 1500 } else if rng.chance(1, 10) { 40 } else { 8 },
            extreme_values: run % 8 == 7,
            ..ModelKnobs::default()
        };
        let mut m = gen_model(&mut rng, &k);
        if run % 3000 == 2999 {
            // production scale: 1.5 million character n-grams (about 35 MB)
            m.char_window_size = m.char_window_size.clamp(2, 7);
            let w = usize::from(m.char_window_size);
            // keep the tag features inside the (possibly smaller) window
            for t in m.tag_models.iter_mut() {
                for d in t.char_ngram_model.iter_mut() {
                    for tw in d.weights.iter_mut() {
                        tw.rel_position = tw.rel_position.min(m.char_window_size);
                    }
                }
            }
            m.char_ngram_model.clear();
            let alpha: Vec<char> = ('\u{4e00}'..='\u{4e80}').collect();
            'outer: for &a in &alpha {
                for &b in &alpha {
                    for &c in &alpha {
                        m.char_ngram_model.push(crate::mmodel::MNgram { ngram: [a, b, c].iter().collect(), weights: vec![((a as i32 * 31 + b as i32) % 97) - 48; 2 * w - 3 + 1] });
                        if m.char_ngram_model.len() >= 1_500_000 {
                            break 'outer;
                        }
                    }
                }
            }
        } else if run % 40 == 39 {
            // a serialisation whose total or body length sits exactly on (or one byte off) a
            // power-of-two block boundary
            let j = rng.range(9, 17);
            let kmul = if j >= 15 { 1 } else { rng.range(1, 3) };
            let base = kmul << j;
            let target = (base + if rng.chance(1, 2) { MODEL_MAGIC.len() } else { 0 } + rng.range(0, 2)).saturating_sub(1);
            crate::mmodel::pad_to_size(&mut m, target);
        }
        ModelSrc::Gen(m)
    };
    let write_scheds = (0..3).map(|_| Sched::benign(&mut rng)).collect();
    let read_scheds = (0..4)
        .map(|i| {
            let cap = match i {
                0 => 0,
                1 => 1,
                _ => rng.range(2, 64) as u16,
            };
            (Sched::benign(&mut rng), cap)
        })
        .collect();
    let chunk_sched = Sched::benign(&mut rng);
    let mut suffixes = vec![vec![0u8], MODEL_MAGIC.to_vec()];
    let n = rng.range(1, 40);
    suffixes.push((0..n).map(|_| rng.below(256) as u8).collect());
    // models with extreme weights are serialisation stress only: no texts, no predictions
    let texts = if matches!(src, ModelSrc::Gen(_)) && run % 8 == 7 { vec![] } else { (0..4).map(|_| gen::gen_text(&mut rng)).collect() };
    let giant = matches!(&src, ModelSrc::Gen(m) if m.char_ngram_model.len() >= 1_000_000);
    C07Plan { src, write_scheds, read_scheds, chunk_sched, suffixes, texts, only: None, giant }
}

#[derive(Clone, Debug)]
pub struct C07Violation {
    pub class: String,
    pub signature: String,
    pub detail: String,
    pub scenario: String,
    pub p: usize,
}

#[derive(Default, Clone, Debug)]
pub struct C07Stats {
    pub attempts: u64,
    pub faulted_attempts: u64,
    pub fired: Fired,
    pub probes: Vec<(&'static str, u64)>,
    pub model_hash: u64,
    pub len: usize,
    pub digest: u64,
}

/// Crash points to enumerate for a serialisation of `l` bytes: all of them up to 3000 bytes,
/// otherwise both ends, a window around every multiple of 8192 and a stride of 61.
pub fn offsets(l: usize) -> Vec<usize> {
    if l <= 3000 {
        return (0..l).collect();
    }
    let mut v: Vec<usize> = (0..l).filter(|&p| p < 64 || p + 200 >= l || p % 61 == 0 || (p % 8192) < 3 || (p % 8192) > 8188).collect();
    v.dedup();
    v
}

fn region(p: usize) -> &'static str {
    if p < MODEL_MAGIC.len() {
        "inside-header"
    } else {
        "inside-body"
    }
}

fn load(bytes: &[u8]) -> Option<Result<Model, String>> {
    guarded(|| Model::read_slice(bytes).map(|(m, _)| m).map_err(|e| e.to_string()))
}

fn predictions(bytes_of: &dyn Fn() -> Option<Model>, texts: &[String]) -> Option<Vec<String>> {
    let mut out = vec![];
    if texts.is_empty() {
        return Some(out);
    }
    for tags in [false, true] {
        let m = bytes_of()?;
        let mut p = Predictor::new(m, tags).ok()?;
        p.store_tag_scores(tags);
        let n_tags_known = tags;
        for t in texts {
            let Ok(mut s) = Sentence::from_raw(t.as_str()) else { continue };
            p.predict(&mut s);
            if tags {
                s.fill_tags();
            }
            let with_cands = n_tags_known;
            out.push(format!("{:?}", observe(&s, with_cands)));
        }
    }
    Some(out)
}

pub fn execute(plan: &C07Plan) -> (Option<C07Violation>, C07Stats) {
    let mut st = C07Stats::default();
    let mut probes: std::collections::BTreeMap<&'static str, u64> = Default::default();
    let bytes0 = plan.src.bytes();
    let l = bytes0.len();
    st.len = l;
    let mut hh = Fnv::default();
    hh.bytes(&bytes0);
    st.model_hash = hh.finish();
    let mut dg = Fnv::default();
    dg.u64(st.model_hash);
    let pass = Sched::pass();
    let want = |sc: &str, p: usize| -> bool {
        match &plan.only {
            None => true,
            Some(o) => o.scenario == sc && o.p == p,
        }
    };
    let want_sc = |sc: &str| -> bool {
        if plan.giant && !matches!(sc, "S1" | "S4" | "S8") {
            return false;
        }
        plan.only.as_ref().map(|o| o.scenario == sc).unwrap_or(true)
    };
    macro_rules! probe {
        ($n:expr) => {
            *probes.entry($n).or_insert(0) += 1
        };
    }
    macro_rules! fail {
        ($class:expr, $sc:expr, $p:expr, $sig:expr, $detail:expr) => {{
            st.probes = probes.into_iter().collect();
            st.digest = dg.finish();
            return (
                Some(C07Violation { class: $class.to_string(), signature: $sig.to_string(), detail: $detail, scenario: $sc.to_string(), p: $p }),
                st,
            );
        }};
    }

    // ---- S1: symmetric format ---------------------------------------------------------
    st.attempts += 1;
    let m = match load(&bytes0) {
        None => fail!("S1:panic@read_slice", "S1", 0, "well-formed", format!("read_slice panicked on a well-formed model: {}", last_panic())),
        Some(Err(e)) => fail!("S1:read_slice-rejects-well-formed-model", "S1", 0, "well-formed", e),
        Some(Ok(m)) => m,
    };
    if matches!(plan.src, ModelSrc::Gen(ref g) if !g.tag_models.is_empty()) {
        probe!("model-with-tag-models");
    } else {
        probe!("model-without-tag-models");
    }
    if l > 64 {
        probe!("serialisation-exceeds-one-bufreader-fill");
    }
    if plan.giant {
        probe!("giant-model(>30 MB; fault-free round trips only)");
    }
    if l > 8192 {
        probe!("serialisation-exceeds-8KiB(std buffer size; crash points sampled, not exhaustive)");
    }
    if want_sc("S1") {
        match guarded(|| m.to_vec().map_err(|e| e.to_string())) {
            None => fail!("S1:panic@to_vec", "S1", 0, "to_vec", last_panic()),
            Some(Err(e)) => fail!("S1:to_vec-failed", "S1", 0, "to_vec", e),
            Some(Ok(v)) => {
                if v != bytes0 {
                    let p = v.iter().zip(&bytes0).position(|(a, b)| a != b).unwrap_or(v.len().min(l));
                    fail!("S1:to_vec-differs", "S1", p, region(p), format!("to_vec() differs from the bytes the model was read from at offset {p} (len {} vs {l})", v.len()));
                }
            }
        }
        let mut w = FaultyWriter::new(&pass).capped(4 * l + 65536);
        st.attempts += 1;
        match guarded(|| m.write(&mut w).map_err(|e| e.to_string())) {
            None => fail!("S1:panic@write", "S1", 0, "write", last_panic()),
            Some(_) if w.overflow => fail!("S1:writer-runaway", "S1", 0, "write", format!("write() sent more than {} bytes for a model of {l} bytes", 4 * l + 65536)),
            Some(Err(e)) => fail!("S1:write-failed-on-healthy-writer", "S1", 0, "write", e),
            Some(Ok(())) => {
                if w.sink != bytes0 {
                    fail!("S1:write-differs", "S1", 0, "write", "write() into a healthy sink differs from to_vec()".to_string());
                }
            }
        }
    }

    // ---- S2: benign write schedules -----------------------------------------------------
    if want_sc("S2") {
        for (i, sc) in plan.write_scheds.iter().enumerate() {
            if !want("S2", i) {
                continue;
            }
            let mut w = FaultyWriter::new(sc).capped(4 * l + 65536);
            st.attempts += 1;
            let r = guarded(|| m.write(&mut w).map_err(|e| e.to_string()));
            st.fired.add(&w.fired);
            if w.fired.any() {
                st.faulted_attempts += 1;
            }
            if w.fired.short > 0 && w.sink.len() >= MODEL_MAGIC.len() {
                probe!("short-write-fired");
            }
            match r {
                None => fail!("S2:panic@write", "S2", i, "benign-write", last_panic()),
                Some(_) if w.overflow => fail!("S2:writer-runaway", "S2", i, "benign-write", format!("write() sent more than {} bytes for a model of {l} bytes under a benign short/interrupted schedule (bytes re-sent in a retry loop)", 4 * l + 65536)),
                Some(Err(e)) => fail!("S2:write-failed-on-benign-schedule", "S2", i, "benign-write", e),
                Some(Ok(())) => {
                    if w.sink != bytes0 {
                        fail!("S2:sink-differs", "S2", i, "benign-write", format!("{} bytes accepted, expected {l}", w.sink.len()));
                    }
                }
            }
            dg.u64(w.fired.calls);
        }
    }

    // ---- S3: failing write at every offset, then restart on what was accepted -------------
    if want_sc("S3") {
        let fails = [
            WFail::Err(Kind::StorageFull),
            WFail::Zero,
            WFail::Err(Kind::BrokenPipe),
            WFail::Err(Kind::Other),
            WFail::Err(Kind::TimedOut),
        ];
        for p in offsets(l) {
            if !want("S3", p) {
                continue;
            }
            let f = fails[p % fails.len()];
            let sc = if p % 2 == 0 { &pass } else { &plan.chunk_sched };
            let mut w = FaultyWriter::new(sc).failing(p, f);
            st.attempts += 1;
            st.faulted_attempts += 1;
            let r = guarded(|| m.write(&mut w).map_err(|e| e.to_string()));
            st.fired.add(&w.fired);
            if p == 0 {
                probe!("failing-write-at-offset-0");
            }
            if p == l - 1 {
                probe!("failing-write-at-last-byte");
            }
            match r {
                None => fail!("S3:panic@write", "S3", p, region(p), last_panic()),
                Some(Ok(())) => fail!("S3:write-ok-despite-failure", "S3", p, region(p), format!("writer failed at byte {p} of {l} ({f:?}) but write() returned Ok")),
                Some(Err(_)) => {}
            }
            if w.sink.len() != p || w.sink[..] != bytes0[..p] {
                // not a property clause by itself, but the restart below must see exactly what was accepted
                probe!("accepted-bytes-not-a-prefix");
            }
            // restart: only the accepted bytes survive
            let b = std::mem::take(&mut w.sink);
            st.attempts += 2;
            st.faulted_attempts += 2;
            let r1 = guarded(|| Model::read(FaultyReader::new(&b, &pass)).map_err(|e| e.to_string()));
            match r1 {
                None => fail!("S3:restart-panic@read", "S3", p, region(p), last_panic()),
                Some(Ok(m2)) => {
                    if m2.to_vec().ok().as_deref() != Some(&bytes0[..]) {
                        fail!("S3:restart-different-model@read", "S3", p, region(p), format!("a torn file of {} bytes was read as a different model", b.len()));
                    }
                }
                Some(Err(_)) => {}
            }
            let r2 = guarded(|| Model::read_slice(&b).map(|(m, _)| m).map_err(|e| e.to_string()));
            match r2 {
                None => fail!("S3:restart-panic@read_slice", "S3", p, region(p), last_panic()),
                Some(Ok(m2)) => {
                    if m2.to_vec().ok().as_deref() != Some(&bytes0[..]) {
                        fail!("S3:restart-different-model@read_slice", "S3", p, region(p), format!("a torn file of {} bytes was read as a different model", b.len()));
                    }
                }
                Some(Err(_)) => {}
            }
        }
    }

    // ---- S4: benign read schedules ---------------------------------------------------------
    if want_sc("S4") {
        let reference = if plan.giant { None } else { predictions(&|| load(&bytes0).and_then(|r| r.ok()), &plan.texts) };
        for (i, (sc, cap)) in plan.read_scheds.iter().enumerate() {
            if !want("S4", i) || (plan.giant && i != 3) {
                continue;
            }
            st.attempts += 1;
            let mut fired = Fired::default();
            let r = guarded(|| {
                if *cap == 0 {
                    let mut rd = FaultyReader::new(&bytes0, sc);
                    let r = Model::read(&mut rd).map_err(|e| e.to_string());
                    fired = rd.fired;
                    r
                } else {
                    let mut rd = BufReader::with_capacity(usize::from(*cap), FaultyReader::new(&bytes0, sc));
                    let r = Model::read(&mut rd).map_err(|e| e.to_string());
                    fired = rd.get_ref().fired;
                    r
                }
            });
            st.fired.add(&fired);
            if fired.any() {
                st.faulted_attempts += 1;
            }
            if fired.interrupted > 0 {
                probe!("interrupted-read-fired");
            }
            if matches!(sc.calls.first(), Some(Dir::Interrupted)) && *cap == 0 {
                probe!("interrupted-during-magic-read");
            }
            if matches!(sc.calls.first(), Some(Dir::Short(k)) if usize::from(*k) < MODEL_MAGIC.len()) && *cap == 0 {
                probe!("short-read-splits-magic");
            }
            match r {
                None => fail!("S4:panic@read", "S4", i, "benign-read", last_panic()),
                Some(Err(e)) => fail!("S4:read-failed-on-benign-schedule", "S4", i, "benign-read", format!("capacity={cap} schedule={:?}: {e}", sc)),
                Some(Ok(m2)) => {
                    let v = m2.to_vec().ok();
                    if v.as_deref() != Some(&bytes0[..]) {
                        fail!("S4:model-differs", "S4", i, "benign-read", format!("capacity={cap} schedule={:?}", sc));
                    }
                    if (i == 0 || plan.only.is_some()) && !plan.giant {
                        let cell = std::cell::RefCell::new(Some(m2));
                        let first = std::cell::Cell::new(true);
                        let got = guarded(|| {
                            predictions(
                                &|| {
                                    if first.replace(false) {
                                        cell.borrow_mut().take()
                                    } else {
                                        // the second predictor needs a second copy: read it the same way
                                        Model::read(FaultyReader::new(&bytes0, sc)).ok()
                                    }
                                },
                                &plan.texts,
                            )
                        });
                        st.attempts += 1;
                        match got {
                            None => fail!("S4:panic@predict", "S4", i, "benign-read", last_panic()),
                            Some(g) => {
                                if g != reference {
                                    fail!("S4:prediction-differs", "S4", i, "benign-read", "the re-read model predicts differently".to_string());
                                }
                                probe!("predictions-compared");
                            }
                        }
                    }
                }
            }
            dg.u64(fired.calls);
        }
    }

    // ---- S5: truncation at every offset -----------------------------------------------------
    if want_sc("S5") {
        for p in offsets(l) {
            if !want("S5", p) {
                continue;
            }
            if p < MODEL_MAGIC.len() {
                probe!("truncation-inside-header");
            }
            if p == l - 1 {
                probe!("truncation-at-last-byte");
            }
            for (variant, sc) in [("whole", &pass), ("chunked", &plan.chunk_sched)] {
                st.attempts += 1;
                st.faulted_attempts += 1;
                let mut fired = Fired::default();
                let r = guarded(|| {
                    let mut rd = FaultyReader::new(&bytes0, sc).truncated(p);
                    let r = Model::read(&mut rd).map_err(|e| e.to_string());
                    fired = rd.fired;
                    r
                });
                st.fired.add(&fired);
                match r {
                    None => fail!("S5:panic@read", "S5", p, region(p), format!("{variant} reader, EOF at byte {p} of {l}: {}", last_panic())),
                    Some(Ok(_)) => fail!("S5:prefix-accepted@read", "S5", p, region(p), format!("{variant} reader, EOF at byte {p} of {l} accepted as a model")),
                    Some(Err(_)) => {}
                }
            }
            st.attempts += 1;
            st.faulted_attempts += 1;
            st.fired.eof += 1;
            let r = guarded(|| Model::read_slice(&bytes0[..p]).map(|_| ()).map_err(|e| e.to_string()));
            match r {
                None => fail!("S5:panic@read_slice", "S5", p, region(p), format!("slice of {p} of {l} bytes: {}", last_panic())),
                Some(Ok(())) => fail!("S5:prefix-accepted@read_slice", "S5", p, region(p), format!("slice of {p} of {l} bytes accepted as a model")),
                Some(Err(_)) => {}
            }
        }
    }

    // ---- S6: hard read error at every offset ---------------------------------------------------
    if want_sc("S6") {
        for p in offsets(l) {
            if !want("S6", p) {
                continue;
            }
            let k = Kind::ALL[p % Kind::ALL.len()];
            let sc = if p % 2 == 0 { &plan.chunk_sched } else { &pass };
            st.attempts += 1;
            st.faulted_attempts += 1;
            let mut fired = Fired::default();
            let r = guarded(|| {
                if p % 3 == 0 {
                    let mut rd = BufReader::with_capacity(1 + p % 17, FaultyReader::new(&bytes0, sc).failing(p, k));
                    let r = Model::read(&mut rd).map_err(|e| e.to_string());
                    fired = rd.get_ref().fired;
                    r
                } else {
                    let mut rd = FaultyReader::new(&bytes0, sc).failing(p, k);
                    let r = Model::read(&mut rd).map_err(|e| e.to_string());
                    fired = rd.fired;
                    r
                }
            });
            st.fired.add(&fired);
            match r {
                None => fail!("S6:panic@read", "S6", p, region(p), format!("{k:?} at byte {p}: {}", last_panic())),
                Some(Ok(_)) => fail!("S6:ok-despite-read-error", "S6", p, region(p), format!("reader failed with {k:?} at byte {p} of {l} but read() returned a model")),
                Some(Err(_)) => {}
            }
        }
    }

    // ---- S7: foreign headers -----------------------------------------------------------------
    if want_sc("S7") {
        let mut cases: Vec<(usize, Vec<u8>)> = vec![];
        for i in 0..MODEL_MAGIC.len() {
            for delta in [1u8, 0x80] {
                let mut b = bytes0.clone();
                b[i] = b[i].wrapping_add(delta);
                cases.push((i * 2 + usize::from(delta != 1), b));
            }
        }
        for (j, old) in [&b"VaporettoTokenizer 0.4.0\n"[..], b"VaporettoTokenizer 0.5.1\n", b"vaporettotokenizer 0.5.0\n", b"KyTea 0.4.0 B utf8\n\x01\x01\x02\0\0\0\0"].iter().enumerate() {
            let mut b = old.to_vec();
            b.extend_from_slice(&bytes0[MODEL_MAGIC.len()..]);
            cases.push((100 + j, b));
        }
        cases.push((200, vec![]));
        cases.push((201, bytes0[MODEL_MAGIC.len()..].to_vec()));
        for (id, b) in &cases {
            if !want("S7", *id) {
                continue;
            }
            st.attempts += 2;
            st.faulted_attempts += 2;
            let short = b.len() < MODEL_MAGIC.len();
            if short {
                probe!("foreign-input-shorter-than-header");
            }
            let sig = if short { "shorter-than-header" } else { "full-header" };
            match guarded(|| Model::read(FaultyReader::new(b, &plan.chunk_sched)).map(|_| ())) {
                None => fail!("S7:panic@read", "S7", *id, sig, last_panic()),
                Some(Ok(())) => fail!("S7:foreign-header-accepted@read", "S7", *id, sig, format!("header case {id} accepted")),
                Some(Err(_)) => {}
            }
            match guarded(|| Model::read_slice(b).map(|_| ())) {
                None => fail!("S7:panic@read_slice", "S7", *id, sig, last_panic()),
                Some(Ok(())) => fail!("S7:foreign-header-accepted@read_slice", "S7", *id, sig, format!("header case {id} accepted")),
                Some(Err(_)) => {}
            }
        }
    }

    // ---- S8: trailing bytes --------------------------------------------------------------------
    if want_sc("S8") {
        for (i, t) in plan.suffixes.iter().enumerate() {
            if !want("S8", i) || (plan.giant && i != 0) {
                continue;
            }
            let mut b = bytes0.clone();
            b.extend_from_slice(t);
            st.attempts += 1;
            let r = guarded(|| Model::read_slice(&b).map(|(m, rest)| (m.to_vec().ok(), rest.to_vec())).map_err(|e| e.to_string()));
            match r {
                None => fail!("S8:panic@read_slice", "S8", i, "trailing", last_panic()),
                Some(Err(e)) => fail!("S8:read_slice-rejects-model-with-trailing-bytes", "S8", i, "trailing", e),
                Some(Ok((v, rest))) => {
                    if rest != *t {
                        fail!("S8:rest-differs", "S8", i, "trailing", format!("returned {} trailing bytes, expected {}", rest.len(), t.len()));
                    }
                    if v.as_deref() != Some(&bytes0[..]) {
                        fail!("S8:model-differs", "S8", i, "trailing", "model read before trailing bytes differs".to_string());
                    }
                }
            }
            // a reader must also ignore what follows the model
            st.attempts += 1;
            let r = guarded(|| Model::read(FaultyReader::new(&b, &plan.chunk_sched)).map(|m| m.to_vec().ok()).map_err(|e| e.to_string()));
            match r {
                None => fail!("S8:panic@read", "S8", i, "trailing", last_panic()),
                Some(Err(e)) => fail!("S8:read-rejects-model-with-trailing-bytes", "S8", i, "trailing", e),
                Some(Ok(v)) => {
                    if v.as_deref() != Some(&bytes0[..]) {
                        fail!("S8:model-differs@read", "S8", i, "trailing", "model read before trailing bytes differs".to_string());
                    }
                }
            }
        }
    }
    dg.u64(st.attempts);
    dg.u64(st.fired.calls);
    st.probes = probes.into_iter().collect();
    st.digest = dg.finish();
    (None, st)
}

fn same_class(plan: &C07Plan, class: &str) -> bool {
    matches!(execute(plan).0, Some(v) if v.class == class)
}

pub fn minimise(plan: &C07Plan, v: &C07Violation) -> (C07Plan, usize) {
    let mut budget = 400usize;
    let start = budget;
    start_minimisation(45);
    let mut best = plan.clone();
    if let ModelSrc::Gen(_) = best.src {
        macro_rules! shrink_field {
            ($field:ident) => {{
                let ModelSrc::Gen(m) = &best.src else { unreachable!() };
                let items = m.$field.clone();
                let base = best.clone();
                let kept = ddmin(items, &mut budget, |c| {
                    let mut cand = base.clone();
                    if let ModelSrc::Gen(m) = &mut cand.src {
                        m.$field = c.to_vec();
                    }
                    same_class(&cand, &v.class)
                });
                if let ModelSrc::Gen(m) = &mut best.src {
                    m.$field = kept;
                }
            }};
        }
        shrink_field!(tag_models);
        shrink_field!(char_ngram_model);
        shrink_field!(type_ngram_model);
        shrink_field!(dict_model);
    }
    // narrow to the single failing scenario/offset of the minimised model
    if let (Some(v2), _) = execute(&best) {
        let mut cand = best.clone();
        cand.only = Some(Only { scenario: v2.scenario.clone(), p: v2.p });
        budget = budget.saturating_sub(1);
        if same_class(&cand, &v.class) {
            best = cand;
        }
    }
    (best, start - budget)
}

pub fn plan_summary(plan: &C07Plan) -> serde_json::Value {
    let b = plan.src.bytes();
    json!({
        "model": match &plan.src {
            ModelSrc::Gen(m) => json!({"generated": {"char_window": m.char_window_size, "type_window": m.type_window_size,
                "char_ngrams": m.char_ngram_model.len(), "type_ngrams": m.type_ngram_model.len(), "dict_words": m.dict_model.len(), "tag_models": m.tag_models.len()}}),
            ModelSrc::File { name, .. } => json!({"file": name}),
        },
        "serialised_len": b.len(),
        "scenarios": "S1 symmetric; S2 benign write schedules; S3 failing write at every offset + restart; S4 benign read schedules; S5 truncation at every offset (whole/chunked reader, slice); S6 read error at every offset; S7 foreign headers; S8 trailing bytes",
        "write_schedules": plan.write_scheds,
        "read_schedules": plan.read_scheds,
        "suffix_lengths": plan.suffixes.iter().map(|s| s.len()).collect::<Vec<_>>(),
        "texts": plan.texts,
    })
}

pub fn worker(seed: u64, start: u64, end: u64, progress: &mut dyn FnMut(u64), keep_digests: bool) -> Summary {
    let files = real_files();
    let mut sum = Summary::default();
    if files.is_empty() {
        sum.harness_errors.push("no real model file found under $VERIF_REPO".into());
    }
    for run in start..end {
        progress(run);
        let plan = plan_for(seed, run, &files);
        if let ModelSrc::Gen(m) = &plan.src {
            if let Err(e) = m.well_formed() {
                sum.harness_errors.push(format!("run {run}: generated model not well-formed: {e}"));
                continue;
            }
        }
        sum.runs += 1;
        if run < 3 {
            sum.samples.push(json!({"run": run, "plan": plan_summary(&plan)}));
        }
        let (v, st) = execute(&plan);
        sum.steps += st.attempts;
        sum.count("attempts(decode/encode)", st.attempts);
        sum.count("fault:short-transfer", st.fired.short);
        sum.count("fault:interrupted", st.fired.interrupted);
        sum.count("fault:eof-truncation", st.fired.eof);
        sum.count("fault:hard-error", st.fired.hard_error);
        sum.count("fault:write-zero", st.fired.write_zero);
        sum.count("io-calls", st.fired.calls);
        sum.count("model-bytes-total", st.len as u64);
        for (k, n) in &st.probes {
            sum.count(&format!("probe:{k}"), *n);
        }
        sum.weighted_distinct.entry(st.model_hash).or_insert(st.faulted_attempts);
        sum.digest_sum = sum.digest_sum.wrapping_add(crate::rng::splitmix64(st.digest ^ crate::rng::splitmix64(run)));
        if keep_digests {
            sum.run_digests.push((run, st.digest));
        }
        if let Some(v) = v {
            if sum.violations.len() < 3 {
                progress(run | MINIMISING);
                let (min, execs) = minimise(&plan, &v);
                let v2 = execute(&min).0.unwrap_or(v.clone());
                let path = replay_path("C07", seed, run, "");
                let rf = ReplayFile {
                    property: "C07".into(),
                    engine: "iosim-c07".into(),
                    verif_seed: seed,
                    run,
                    class: v2.class.clone(),
                    signature: v2.signature.clone(),
                    detail: v2.detail.clone(),
                    original_size: plan.src.bytes().len(),
                    minimised_size: min.src.bytes().len(),
                    minimiser_executions: execs,
                    plan: serde_json::to_value(&min).unwrap(),
                    miri_seed: None,
                };
                let _ = write_json(&path, &rf);
                sum.violations.push(ViolationRec {
                    property: "C07".into(),
                    run,
                    class: v2.class,
                    signature: v2.signature,
                    detail: v2.detail,
                    replay: path.display().to_string(),
                });
            } else {
                sum.count("violations-beyond-first-3-not-minimised", 1);
            }
        }
    }
    sum
}

pub fn replay(rf: &ReplayFile) -> Result<Option<(String, String, Vec<String>)>, String> {
    let plan: C07Plan = serde_json::from_value(rf.plan.clone()).map_err(|e| e.to_string())?;
    let (v, st) = execute(&plan);
    let log = vec![format!("model of {} bytes, {} attempts, faults fired: {:?}", st.len, st.attempts, st.fired)];
    Ok(v.map(|v| (v.class, v.detail, log)))
}
