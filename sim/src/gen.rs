//! Seeded generators for texts, annotated sentences and (in)valid parser inputs.

use crate::rng::Rng;

/// Frequent symbols: model patterns and texts share them, so patterns actually match.
pub const CORE: &[char] = &['あ', 'い', 'の', 'ア', 'イ', '漢', '字', 'a', 'b', '1', '2', '。'];

/// Rare symbols, one per special path of the code base.
pub const EXTRA: &[char] = &[
    'ｱ',         // half-width katakana
    '𠮷',        // 4-byte CJK Extension B
    'Ａ',        // full-width Roman
    '１',        // full-width digit
    'Z', '9', 'ー', '々', '、', '-', '.', '/', '｢', '(', '～', ' ', '\\', '|', '\r', '\n',
    '\u{200d}',  // ZWJ
    '\u{3099}',  // combining voiced sound mark
    '👏',
    '\u{1f3fd}', // skin tone modifier
    '🇯', '🇵',    // regional indicators
    '\u{feff}', // byte-order mark (a character like any other for the tools)
    'é', 'ß', '\t', '\u{a0}', '\u{3000}', '_', ':',
    // rewritten by the normaliser without changing their UTF-8 length
    '｣', '､', '･', '｡', '－', '―', '─', '–',
];

/// Images of the alphabet under the KyTea full-width normaliser: what a model is matched
/// against in normalising mode (the raw ASCII patterns never match there).
pub const NORMALISED: &[char] = &['ａ', 'ｂ', '１', '２', 'Ｚ', '９', '。', '「', '」', '、', '・', '〜', 'ー', '−', '／', '（', '＿', '：', 'Ａ'];

/// Symbols with a meaning in the two annotation formats.
pub const META: &[char] = &[' ', '/', '\\', '-', '|'];

/// Every character the KyTea full-width normaliser rewrites (the keys of its table).
pub const NORMALISER_SOURCES: &str = "abcdefghijklmnopqrstuvwxyzABCDEFGHIJKLMNOPQRSTUVWXYZ0123456789(){}<>｢｣[]-～.－/_,%?､―\"'･─+:–!｡&*@=";

/// The long-vowel-mark look-alikes (real-world typos such as ス―パ―): four characters of class
/// Other that the normaliser turns into the katakana prolonged sound mark.
pub const DASHES: &[char] = &['－', '―', '─', '–', 'ー'];

pub fn gen_char(rng: &mut Rng) -> char {
    match rng.below(24) {
        0 | 1 => {
            let n = NORMALISER_SOURCES.chars().count();
            return NORMALISER_SOURCES.chars().nth(rng.below(n)).unwrap();
        }
        2 => return *rng.pick(DASHES),
        _ => {}
    }
    if rng.chance(3, 4) {
        *rng.pick(CORE)
    } else {
        *rng.pick(EXTRA)
    }
}

/// A pattern for model n-grams, dictionary words and tag tokens (never contains NUL).
pub fn gen_pattern(rng: &mut Rng, n: usize) -> String {
    (0..n)
        .map(|_| match rng.below(20) {
            0 | 1 => *rng.pick(EXTRA),
            2..=4 => *rng.pick(NORMALISED),
            5 => *rng.pick(DASHES),
            _ => *rng.pick(CORE),
        })
        .collect()
}

pub fn gen_len(rng: &mut Rng) -> usize {
    match rng.below(40) {
        // lengths at and around powers of two (buffer and capacity boundaries)
        9 => {
            let k = rng.range(4, 13);
            ((1usize << k) + rng.range(0, 2)).saturating_sub(1)
        }
        0 | 1 => 1,
        2 | 3 => 2,
        4..=6 => rng.range(13, 48),
        // beyond the small sizes: across 64, 256 and (rarely) 1024
        7 => rng.range(49, 140),
        8 => match rng.below(6400) {
            // (sentences beyond 2^20 bytes have their own dedicated runs, see histsim `mega`)
            0 => rng.range(66_000, 140_000),
            // beyond 2^16: rare, because every step on such a sentence costs milliseconds
            1..=10 => rng.range(66_000, 140_000),
            11..=410 => rng.range(3000, 10000),
            411..=2010 => rng.range(900, 1100),
            _ => rng.range(200, 300),
        },
        _ => rng.range(1, 12),
    }
}

/// Real sentences: the repository's own corpora and documentation examples. Generated models
/// rarely match them, but the repository's real models do (see `mmodel::real_models`).
pub fn corpus() -> &'static [String] {
    static CORPUS: std::sync::OnceLock<Vec<String>> = std::sync::OnceLock::new();
    CORPUS.get_or_init(|| {
        let mut v: Vec<String> = ["まぁ社長は火星猫だ", "まぁ良いだろう", "火星に行きました", "Rustで良いプログラミング体験を！", "東京特許許可局", "ヴェネツィアはイタリアにあります。", "2021年8月24日"]
            .iter()
            .map(|s| s.to_string())
            .collect();
        #[cfg(not(miri))]
        {
            let repo = std::env::var("VERIF_REPO").unwrap_or_else(|_| "/repo".into());
            for f in ["resources/docs.tok", "vaporetto_tantivy/test_model/test_corpus.tok"] {
                if let Ok(t) = std::fs::read_to_string(std::path::Path::new(&repo).join(f)) {
                    for line in t.lines() {
                        if let Some(e) = crate::refparse::tokenized(line) {
                            if !v.contains(&e.raw) {
                                v.push(e.raw);
                            }
                        }
                    }
                }
            }
        }
        v
    })
}

/// A valid raw text (non-empty, no NUL).
pub fn gen_text(rng: &mut Rng) -> String {
    if rng.chance(1, 10) {
        // a real sentence, a piece of one, or two glued together
        let c = corpus();
        let a: Vec<char> = rng.pick(c).chars().collect();
        return match rng.below(4) {
            0 => {
                let i = rng.below(a.len());
                let j = rng.range(i + 1, a.len());
                a[i..j].iter().collect()
            }
            1 => {
                let mut s: String = a.into_iter().collect();
                let second: &String = rng.pick(c);
                s.push_str(second);
                s
            }
            _ => a.into_iter().collect(),
        };
    }
    let n = gen_len(rng);
    gen_text_n(rng, n)
}

pub fn gen_text_n(rng: &mut Rng, n: usize) -> String {
    (0..n).map(|_| gen_char(rng)).collect()
}

pub const TAG_VOCAB: &[&str] = &["名詞", "動詞", "助詞", "カ", "N", "V", "x/y", "a b", "b\\", "-", "|", "タグ"];

pub fn gen_tag(rng: &mut Rng) -> String {
    if rng.chance(5, 6) {
        (*rng.pick(TAG_VOCAB)).to_string()
    } else {
        let n = rng.range(1, 3);
        gen_text_n(rng, n)
    }
}

/// Input for `from_raw` / `update_raw`: mostly valid, sometimes empty or containing NUL.
pub fn gen_raw_input(rng: &mut Rng) -> String {
    match rng.below(20) {
        0 => String::new(),
        1 | 2 => {
            let mut cs: Vec<char> = gen_text(rng).chars().collect();
            let p = rng.below(cs.len() + 1);
            cs.insert(p, '\0');
            cs.into_iter().collect()
        }
        3 => "\0".to_string(),
        _ => gen_text(rng),
    }
}

#[derive(Clone, Debug)]
pub struct Annotated {
    pub chars: Vec<char>,
    /// 0 = not a boundary, 1 = boundary, 2 = unknown; one per adjacent pair.
    pub labels: Vec<u8>,
    /// tags[i] = tags attached after character i (may be empty).
    pub tags: Vec<Vec<Option<String>>>,
}

pub fn gen_annotated(rng: &mut Rng, allow_unknown: bool) -> Annotated {
    let n = gen_len(rng);
    let chars: Vec<char> = (0..n).map(|_| gen_char(rng)).collect();
    gen_annotated_over(rng, chars, allow_unknown)
}

/// A short annotated sentence in which every token carries tags (soak runs).
pub fn gen_annotated_tagged(rng: &mut Rng, max_len: usize, allow_unknown: bool) -> Annotated {
    let n = rng.range(1, max_len.max(1));
    let chars: Vec<char> = (0..n).map(|_| gen_char(rng)).collect();
    let mut a = gen_annotated_over(rng, chars, allow_unknown);
    for i in 0..n {
        if (i + 1 == n || a.labels[i] == 1) && a.tags[i].is_empty() {
            a.tags[i].push(Some(gen_tag(rng)));
        }
    }
    a
}

/// Random labels and tags over a given character sequence (non-empty, no NUL).
pub fn gen_annotated_over(rng: &mut Rng, chars: Vec<char>, allow_unknown: bool) -> Annotated {
    let n = chars.len();
    let labels: Vec<u8> = (0..n - 1)
        .map(|_| {
            if allow_unknown && rng.chance(1, 4) {
                2
            } else if rng.chance(1, 2) {
                1
            } else {
                0
            }
        })
        .collect();
    let tag_mode = rng.below(4); // 0: none, 1: sparse, 2: dense, 3: ragged
    let max_tags = rng.range(1, 3);
    let mut tags = vec![vec![]; n];
    for i in 0..n {
        let at_token_end = i == n - 1 || labels[i] == 1;
        let want = match tag_mode {
            0 => false,
            1 => at_token_end && rng.chance(1, 3),
            2 => at_token_end,
            _ => rng.chance(1, 3),
        };
        if want {
            let k = if tag_mode == 2 { max_tags } else { rng.range(1, max_tags) };
            for _ in 0..k {
                tags[i].push(if rng.chance(1, 6) {
                    None
                } else if rng.chance(1, 12) {
                    // a tag that equals text of the sentence itself (its token, or a piece of it)
                    let start = (0..=i).rev().find(|&j| j == 0 || labels[j - 1] != 0).unwrap_or(0);
                    Some(chars[start..=i].iter().collect())
                } else {
                    Some(gen_tag(rng))
                });
            }
        }
    }
    Annotated { chars, labels, tags }
}

fn push_escaped_tok(out: &mut String, c: char) {
    if matches!(c, ' ' | '/' | '\\') {
        out.push('\\');
    }
    out.push(c);
}

/// Renders in the tokenized format (unknown labels are rendered as "no boundary").
pub fn render_tokenized(a: &Annotated) -> String {
    let mut out = String::new();
    for (i, &c) in a.chars.iter().enumerate() {
        push_escaped_tok(&mut out, c);
        let at_end = i + 1 == a.chars.len() || a.labels[i] == 1;
        if at_end {
            for t in &a.tags[i] {
                out.push('/');
                if let Some(t) = t {
                    for tc in t.chars() {
                        push_escaped_tok(&mut out, tc);
                    }
                }
            }
            if i + 1 != a.chars.len() {
                out.push(' ');
            }
        }
    }
    out
}

/// Renders in the partial-annotation format.
pub fn render_partial(a: &Annotated) -> String {
    let mut out = String::new();
    for (i, &c) in a.chars.iter().enumerate() {
        out.push(c);
        for t in &a.tags[i] {
            out.push('/');
            if let Some(t) = t {
                for tc in t.chars() {
                    if matches!(tc, ' ' | '/' | '\\' | '-' | '|') {
                        out.push('\\');
                    }
                    out.push(tc);
                }
            }
        }
        if i + 1 != a.chars.len() {
            out.push(match a.labels[i] {
                0 => '-',
                1 => '|',
                _ => ' ',
            });
        }
    }
    out
}

fn soup(rng: &mut Rng, n: usize) -> String {
    (0..n)
        .map(|_| match rng.below(10) {
            0..=3 => *rng.pick(META),
            4 => *rng.pick(EXTRA),
            _ => *rng.pick(CORE),
        })
        .collect()
}

fn mutate(rng: &mut Rng, s: String, partial: bool) -> String {
    let mut cs: Vec<char> = s.chars().collect();
    match rng.below(12) {
        0 => return String::new(),
        1 => {
            let p = rng.below(cs.len() + 1);
            cs.insert(p, '\0');
        }
        2 => cs.insert(0, ' '),
        3 => cs.push(' '),
        4 => {
            let p = rng.below(cs.len() + 1);
            cs.insert(p, ' ');
            cs.insert(p, ' ');
        }
        5 => return "\\".to_string(),
        6 => cs.push('\\'),
        7 => cs.insert(0, '/'),
        8 => {
            let p = rng.below(cs.len() + 1);
            cs.insert(p, '/');
            cs.insert(p, ' ');
        }
        9 => {
            // drop one character: makes a partial annotation even-length
            if !cs.is_empty() {
                let p = rng.below(cs.len());
                cs.remove(p);
            }
        }
        10 => {
            let p = rng.below(cs.len() + 1);
            cs.insert(p, if partial { 'x' } else { '\\' });
        }
        _ => {
            let p = rng.below(cs.len() + 1);
            cs.insert(p, *rng.pick(META));
        }
    }
    cs.into_iter().collect()
}

pub fn gen_tokenized_input(rng: &mut Rng) -> String {
    match rng.below(20) {
        0..=10 => {
            let a = gen_annotated(rng, false);
            render_tokenized(&a)
        }
        11..=15 => {
            let a = gen_annotated(rng, false);
            let s = render_tokenized(&a);
            mutate(rng, s, false)
        }
        16 => {
            // escapes only
            let n = rng.range(1, 3);
            (0..n).map(|_| '\\').collect()
        }
        _ => {
            let n = rng.range(0, 10);
            soup(rng, n)
        }
    }
}

pub fn gen_partial_input(rng: &mut Rng) -> String {
    match rng.below(20) {
        0..=10 => {
            let a = gen_annotated(rng, true);
            render_partial(&a)
        }
        11..=15 => {
            let a = gen_annotated(rng, true);
            let s = render_partial(&a);
            mutate(rng, s, true)
        }
        _ => {
            let n = rng.range(0, 10);
            soup(rng, n)
        }
    }
}
