//! Simulated I/O endpoints: the only stubs of the C07/C17 simulations. Each endpoint executes
//! an explicit schedule (per-call directives plus one terminal fault keyed by byte offset),
//! records what it did and counts the faults that actually fired.

use std::io::{self, BufRead, ErrorKind, Read, Write};

use serde::{Deserialize, Serialize};

use crate::rng::Rng;

#[derive(Clone, Copy, Debug, PartialEq, Eq, Serialize, Deserialize)]
pub enum Dir {
    Pass,
    /// transfer at most this many bytes (>= 1)
    Short(u16),
    /// fail with `ErrorKind::Interrupted` without transferring anything
    Interrupted,
}

#[derive(Clone, Copy, Debug, PartialEq, Eq, Serialize, Deserialize)]
pub enum Kind {
    Other,
    BrokenPipe,
    StorageFull,
    TimedOut,
    UnexpectedEof,
    ConnectionReset,
    WouldBlock,
}

impl Kind {
    pub fn to_io(self) -> ErrorKind {
        match self {
            Kind::Other => ErrorKind::Other,
            Kind::BrokenPipe => ErrorKind::BrokenPipe,
            Kind::StorageFull => ErrorKind::StorageFull,
            Kind::TimedOut => ErrorKind::TimedOut,
            Kind::UnexpectedEof => ErrorKind::UnexpectedEof,
            Kind::ConnectionReset => ErrorKind::ConnectionReset,
            Kind::WouldBlock => ErrorKind::WouldBlock,
        }
    }
    pub const ALL: [Kind; 7] =
        [Kind::Other, Kind::BrokenPipe, Kind::StorageFull, Kind::TimedOut, Kind::UnexpectedEof, Kind::ConnectionReset, Kind::WouldBlock];
}

#[derive(Clone, Debug, Default, PartialEq, Eq, Serialize, Deserialize)]
pub struct Sched {
    /// directives for call 0, 1, 2, ...; `Pass` once exhausted (or repeat when `cycle`)
    pub calls: Vec<Dir>,
    pub cycle: bool,
}

impl Sched {
    pub fn pass() -> Self {
        Self::default()
    }
    fn dir(&self, i: usize) -> Dir {
        if self.calls.is_empty() {
            Dir::Pass
        } else if self.cycle {
            self.calls[i % self.calls.len()]
        } else {
            self.calls.get(i).copied().unwrap_or(Dir::Pass)
        }
    }
    /// A seeded benign schedule: short transfers and interrupts, never a hard failure.
    pub fn benign(rng: &mut Rng) -> Self {
        let style = rng.below(5);
        let n = rng.range(1, 40);
        let calls = (0..n)
            .map(|_| match style {
                0 => Dir::Short(1),
                1 => {
                    if rng.chance(1, 2) {
                        Dir::Interrupted
                    } else {
                        Dir::Short(rng.range(1, 3) as u16)
                    }
                }
                2 => Dir::Short(rng.range(1, 9) as u16),
                3 => match rng.below(4) {
                    0 => Dir::Interrupted,
                    1 => Dir::Pass,
                    _ => Dir::Short(rng.range(1, 30) as u16),
                },
                _ => {
                    if rng.chance(1, 6) {
                        Dir::Interrupted
                    } else {
                        Dir::Pass
                    }
                }
            })
            .collect();
        Self { calls, cycle: rng.chance(3, 4) }
    }
}

#[derive(Clone, Copy, Debug, Default)]
pub struct Fired {
    pub short: u64,
    pub interrupted: u64,
    pub eof: u64,
    pub hard_error: u64,
    pub write_zero: u64,
    pub calls: u64,
}

impl Fired {
    pub fn add(&mut self, o: &Fired) {
        self.short += o.short;
        self.interrupted += o.interrupted;
        self.eof += o.eof;
        self.hard_error += o.hard_error;
        self.write_zero += o.write_zero;
        self.calls += o.calls;
    }
    pub fn any(&self) -> bool {
        self.short + self.interrupted + self.eof + self.hard_error + self.write_zero > 0
    }
}

pub struct FaultyReader<'a> {
    data: &'a [u8],
    pub pos: usize,
    sched: &'a Sched,
    /// the data ends here (truncation = crash point of whoever produced the file)
    eof_at: Option<usize>,
    err_at: Option<(usize, Kind)>,
    call: usize,
    /// a benign schedule never interrupts twice in a row, so every retry loop makes progress
    just_interrupted: bool,
    pub fired: Fired,
}

impl<'a> FaultyReader<'a> {
    pub fn new(data: &'a [u8], sched: &'a Sched) -> Self {
        Self { data, pos: 0, sched, eof_at: None, err_at: None, call: 0, just_interrupted: false, fired: Fired::default() }
    }
    pub fn truncated(mut self, p: usize) -> Self {
        self.eof_at = Some(p.min(self.data.len()));
        self
    }
    pub fn failing(mut self, p: usize, k: Kind) -> Self {
        self.err_at = Some((p, k));
        self
    }
    fn end(&self) -> usize {
        self.eof_at.unwrap_or(self.data.len())
    }
    /// Decides how many bytes the next transfer of at most `want` bytes moves.
    fn step(&mut self, want: usize) -> io::Result<usize> {
        self.fired.calls += 1;
        if let Some((p, k)) = self.err_at {
            if self.pos >= p {
                self.fired.hard_error += 1;
                return Err(io::Error::new(k.to_io(), "injected read error"));
            }
        }
        let d = self.sched.dir(self.call);
        self.call += 1;
        if d == Dir::Interrupted && !self.just_interrupted {
            self.just_interrupted = true;
            self.fired.interrupted += 1;
            return Err(io::Error::new(ErrorKind::Interrupted, "injected EINTR"));
        }
        self.just_interrupted = false;
        let mut avail = self.end().saturating_sub(self.pos);
        if let Some((p, _)) = self.err_at {
            avail = avail.min(p - self.pos);
        }
        let mut n = want.min(avail);
        if let Dir::Short(k) = d {
            let k = usize::from(k.max(1));
            if n > k {
                n = k;
                self.fired.short += 1;
            }
        }
        if n == 0 && want > 0 && self.eof_at.is_some() && self.pos >= self.end() {
            self.fired.eof += 1;
        }
        Ok(n)
    }
}

impl Read for FaultyReader<'_> {
    fn read(&mut self, buf: &mut [u8]) -> io::Result<usize> {
        if buf.is_empty() {
            return Ok(0);
        }
        let n = self.step(buf.len())?;
        buf[..n].copy_from_slice(&self.data[self.pos..self.pos + n]);
        self.pos += n;
        Ok(n)
    }
}

/// A direct `BufRead` whose `fill_buf` sizes come from the schedule (no std buffer in between).
pub struct FaultyBufRead<'a> {
    inner: FaultyReader<'a>,
    window: usize,
    default_window: usize,
}

impl<'a> FaultyBufRead<'a> {
    pub fn new(inner: FaultyReader<'a>, default_window: usize) -> Self {
        Self { inner, window: 0, default_window: default_window.max(1) }
    }
    pub fn fired(&self) -> Fired {
        self.inner.fired
    }
    pub fn consumed(&self) -> usize {
        self.inner.pos
    }
}

impl Read for FaultyBufRead<'_> {
    fn read(&mut self, buf: &mut [u8]) -> io::Result<usize> {
        let n = {
            let b = self.fill_buf()?;
            let n = b.len().min(buf.len());
            buf[..n].copy_from_slice(&b[..n]);
            n
        };
        self.consume(n);
        Ok(n)
    }
}

impl BufRead for FaultyBufRead<'_> {
    fn fill_buf(&mut self) -> io::Result<&[u8]> {
        if self.window == 0 {
            self.window = self.inner.step(self.default_window)?;
        }
        Ok(&self.inner.data[self.inner.pos..self.inner.pos + self.window])
    }
    fn consume(&mut self, amt: usize) {
        let amt = amt.min(self.window);
        self.inner.pos += amt;
        self.window -= amt;
    }
}

#[derive(Clone, Copy, Debug, PartialEq, Eq, Serialize, Deserialize)]
pub enum WFail {
    Err(Kind),
    /// `write` returns Ok(0)
    Zero,
}

pub struct FaultyWriter<'a> {
    pub sink: Vec<u8>,
    sched: &'a Sched,
    fail_at: Option<(usize, WFail)>,
    call: usize,
    just_interrupted: bool,
    pub fired: Fired,
    pub flushes: u64,
    /// Simulated device size. A `write` that would push the sink beyond it gets a hard error and
    /// sets `overflow`: code that re-sends accepted bytes in a retry loop (a livelock on a real
    /// device) must end the run as a reportable outcome instead of growing the sink without bound.
    cap: usize,
    pub overflow: bool,
}

impl<'a> FaultyWriter<'a> {
    pub fn new(sched: &'a Sched) -> Self {
        Self { sink: vec![], sched, fail_at: None, call: 0, just_interrupted: false, fired: Fired::default(), flushes: 0, cap: usize::MAX, overflow: false }
    }
    pub fn capped(mut self, cap: usize) -> Self {
        self.cap = cap;
        self
    }
    pub fn failing(mut self, p: usize, f: WFail) -> Self {
        self.fail_at = Some((p, f));
        self
    }
}

impl Write for FaultyWriter<'_> {
    fn write(&mut self, buf: &[u8]) -> io::Result<usize> {
        self.fired.calls += 1;
        if buf.is_empty() {
            return Ok(0);
        }
        if let Some((p, f)) = self.fail_at {
            if self.sink.len() >= p {
                return match f {
                    WFail::Err(k) => {
                        self.fired.hard_error += 1;
                        Err(io::Error::new(k.to_io(), "injected write error"))
                    }
                    WFail::Zero => {
                        self.fired.write_zero += 1;
                        Ok(0)
                    }
                };
            }
        }
        let d = self.sched.dir(self.call);
        self.call += 1;
        if d == Dir::Interrupted && !self.just_interrupted {
            self.just_interrupted = true;
            self.fired.interrupted += 1;
            return Err(io::Error::new(ErrorKind::Interrupted, "injected EINTR"));
        }
        self.just_interrupted = false;
        let mut n = buf.len();
        if let Some((p, _)) = self.fail_at {
            n = n.min(p - self.sink.len());
        }
        if let Dir::Short(k) = d {
            let k = usize::from(k.max(1));
            if n > k {
                n = k;
                self.fired.short += 1;
            }
        }
        if self.overflow || self.sink.len().saturating_add(n) > self.cap {
            self.overflow = true;
            return Err(io::Error::new(ErrorKind::Other, "simulated device is full (harness cap on the sink)"));
        }
        self.sink.extend_from_slice(&buf[..n]);
        Ok(n)
    }
    fn flush(&mut self) -> io::Result<()> {
        self.flushes += 1;
        Ok(())
    }
}
