//! The only source of randomness of the simulator: SplitMix64 seeding a xoshiro256**.
//! Hand-written so that one integer means the same execution on every toolchain.

#[inline]
pub fn splitmix64(x: u64) -> u64 {
    let mut z = x.wrapping_add(0x9e37_79b9_7f4a_7c15);
    z = (z ^ (z >> 30)).wrapping_mul(0xbf58_476d_1ce4_e5b9);
    z = (z ^ (z >> 27)).wrapping_mul(0x94d0_49bb_1331_11eb);
    z ^ (z >> 31)
}

/// Seed of run `i` of engine `tag` under master seed `seed`.
pub fn run_seed(seed: u64, tag: u64, i: u64) -> u64 {
    splitmix64(splitmix64(seed ^ tag.wrapping_mul(0xa076_1d64_78bd_642f)) ^ splitmix64(i))
}

#[derive(Clone, Debug)]
pub struct Rng {
    s: [u64; 4],
}

impl Rng {
    pub fn new(seed: u64) -> Self {
        let mut x = seed;
        let mut s = [0u64; 4];
        for v in s.iter_mut() {
            x = splitmix64(x);
            *v = x;
        }
        if s == [0; 4] {
            s[0] = 1;
        }
        Self { s }
    }

    #[inline]
    pub fn next_u64(&mut self) -> u64 {
        let result = self.s[1].wrapping_mul(5).rotate_left(7).wrapping_mul(9);
        let t = self.s[1] << 17;
        self.s[2] ^= self.s[0];
        self.s[3] ^= self.s[1];
        self.s[1] ^= self.s[2];
        self.s[0] ^= self.s[3];
        self.s[2] ^= t;
        self.s[3] = self.s[3].rotate_left(45);
        result
    }

    /// Uniform in 0..n (n > 0).
    #[inline]
    pub fn below(&mut self, n: usize) -> usize {
        debug_assert!(n > 0);
        ((u128::from(self.next_u64()) * (n as u128)) >> 64) as usize
    }

    /// Uniform in lo..=hi.
    #[inline]
    pub fn range(&mut self, lo: usize, hi: usize) -> usize {
        lo + self.below(hi - lo + 1)
    }

    #[inline]
    pub fn irange(&mut self, lo: i32, hi: i32) -> i32 {
        lo + self.below((hi - lo + 1) as usize) as i32
    }

    /// True with probability num/den.
    #[inline]
    pub fn chance(&mut self, num: usize, den: usize) -> bool {
        self.below(den) < num
    }

    #[inline]
    pub fn pick<'a, T>(&mut self, xs: &'a [T]) -> &'a T {
        &xs[self.below(xs.len())]
    }

    /// Index drawn with the given integer weights.
    pub fn weighted(&mut self, ws: &[usize]) -> usize {
        let total: usize = ws.iter().sum();
        let mut x = self.below(total);
        for (i, &w) in ws.iter().enumerate() {
            if x < w {
                return i;
            }
            x -= w;
        }
        ws.len() - 1
    }

}

/// FNV-1a 64 over bytes; used for digests and fingerprints (never for decisions).
#[derive(Clone, Copy)]
pub struct Fnv(pub u64);

impl Default for Fnv {
    fn default() -> Self {
        Fnv(0xcbf2_9ce4_8422_2325)
    }
}

impl Fnv {
    #[inline]
    pub fn bytes(&mut self, b: &[u8]) {
        for &x in b {
            self.0 ^= u64::from(x);
            self.0 = self.0.wrapping_mul(0x0000_0100_0000_01b3);
        }
    }
    #[inline]
    pub fn u64(&mut self, x: u64) {
        self.bytes(&x.to_le_bytes());
    }
    #[inline]
    pub fn str(&mut self, s: &str) {
        self.bytes(s.as_bytes());
        self.bytes(&[0xff]);
    }
    pub fn finish(&self) -> u64 {
        splitmix64(self.0)
    }
}
