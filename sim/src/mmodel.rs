//! Mirror of vaporetto's model layout. `Model` has no public constructor, so the simulator
//! builds models as bytes: these structs have the field order of `ModelData` and friends and
//! are encoded with the same bincode configuration, then fed to `Model::read_slice`.

use bincode::{Decode, Encode};
use serde::{Deserialize, Serialize};

use crate::gen;
use crate::rng::Rng;

pub const MODEL_MAGIC: &[u8] = b"VaporettoTokenizer 0.5.0\n";

#[derive(Clone, Debug, PartialEq, Eq, Encode, Decode, Serialize, Deserialize)]
pub struct MNgram<T> {
    pub ngram: T,
    pub weights: Vec<i32>,
}

#[derive(Clone, Debug, PartialEq, Eq, Encode, Decode, Serialize, Deserialize)]
pub struct MTagWeight {
    pub rel_position: u8,
    pub weights: Vec<i32>,
}

#[derive(Clone, Debug, PartialEq, Eq, Encode, Decode, Serialize, Deserialize)]
pub struct MTagNgram<T> {
    pub ngram: T,
    pub weights: Vec<MTagWeight>,
}

#[derive(Clone, Debug, PartialEq, Eq, Encode, Decode, Serialize, Deserialize)]
pub struct MWord {
    pub word: String,
    pub weights: Vec<i32>,
    pub comment: String,
}

#[derive(Clone, Debug, PartialEq, Eq, Encode, Decode, Serialize, Deserialize)]
pub struct MTagModel {
    pub token: String,
    pub tags: Vec<Vec<String>>,
    pub char_ngram_model: Vec<MTagNgram<String>>,
    pub type_ngram_model: Vec<MTagNgram<Vec<u8>>>,
    pub bias: Vec<i32>,
}

#[derive(Clone, Debug, PartialEq, Eq, Encode, Decode, Serialize, Deserialize)]
pub struct MModel {
    pub char_ngram_model: Vec<MNgram<String>>,
    pub type_ngram_model: Vec<MNgram<Vec<u8>>>,
    pub dict_model: Vec<MWord>,
    pub bias: i32,
    pub char_window_size: u8,
    pub type_window_size: u8,
    pub tag_models: Vec<MTagModel>,
}

impl MModel {
    pub fn to_bytes(&self) -> Vec<u8> {
        let mut v = MODEL_MAGIC.to_vec();
        v.extend(bincode::encode_to_vec(self, bincode::config::standard()).expect("encode mirror"));
        v
    }

    pub fn from_bytes(b: &[u8]) -> Option<(Self, usize)> {
        if b.len() < MODEL_MAGIC.len() || &b[..MODEL_MAGIC.len()] != MODEL_MAGIC {
            return None;
        }
        let (m, n): (MModel, usize) =
            bincode::decode_from_slice(&b[MODEL_MAGIC.len()..], bincode::config::standard()).ok()?;
        Some((m, n + MODEL_MAGIC.len()))
    }

    /// Number of tag slots a tagging predictor built from this model fills.
    pub fn n_tags(&self) -> usize {
        self.tag_models.iter().map(|t| t.tags.len()).max().unwrap_or(0)
    }

    /// Checks the constraints under which `Predictor::new` and `predict` are specified.
    /// A violation here is a generator (harness) bug, never a property violation.
    pub fn well_formed(&self) -> Result<(), String> {
        let cw = usize::from(self.char_window_size);
        let tw = usize::from(self.type_window_size);
        let mut seen = std::collections::BTreeSet::new();
        for d in &self.char_ngram_model {
            let n = d.ngram.chars().count();
            if n == 0 || n > 2 * cw.max(1) {
                return Err(format!("char ngram length {n} vs window {cw}"));
            }
            if cw > 0 && (d.weights.len() > 2 * cw - n + 1 || (cw > 7 && d.weights.len() != 2 * cw - n + 1)) {
                return Err("char ngram weight count".into());
            }
            if d.ngram.contains('\0') || !seen.insert(d.ngram.clone()) {
                return Err("char ngram dup/NUL".into());
            }
        }
        let mut seen = std::collections::BTreeSet::new();
        for d in &self.type_ngram_model {
            let n = d.ngram.len();
            if n == 0 || n > 2 * tw.max(1) {
                return Err(format!("type ngram length {n} vs window {tw}"));
            }
            if tw > 0 && (d.weights.len() > 2 * tw - n + 1 || (tw > 7 && d.weights.len() != 2 * tw - n + 1)) {
                return Err("type ngram weight count".into());
            }
            if d.ngram.iter().any(|&t| !(1..=6).contains(&t)) || !seen.insert(d.ngram.clone()) {
                return Err("type ngram dup/range".into());
            }
        }
        let mut seen = std::collections::BTreeSet::new();
        for d in &self.dict_model {
            let n = d.word.chars().count();
            if n == 0 || d.weights.len() != n + 1 {
                return Err("dict weight count".into());
            }
            if d.word.contains('\0') || !seen.insert(d.word.clone()) {
                return Err("dict dup/NUL".into());
            }
        }
        let mut seen = std::collections::BTreeSet::new();
        for t in &self.tag_models {
            if t.token.is_empty() || !seen.insert(t.token.clone()) {
                return Err("tag token dup/empty".into());
            }
            let need: usize = t.tags.iter().map(|c| if c.len() >= 2 { c.len() } else { 0 }).sum();
            if t.bias.len() != need {
                return Err("tag bias length".into());
            }
            for d in &t.char_ngram_model {
                if d.ngram.is_empty() || d.ngram.contains('\0') {
                    return Err("tag char ngram".into());
                }
                for w in &d.weights {
                    if usize::from(w.rel_position) > cw || w.weights.len() != need {
                        return Err("tag char weight".into());
                    }
                }
            }
            for d in &t.type_ngram_model {
                if d.ngram.is_empty() || d.ngram.iter().any(|&t| !(1..=6).contains(&t)) {
                    return Err("tag type ngram".into());
                }
                for w in &d.weights {
                    if usize::from(w.rel_position) > tw || w.weights.len() != need {
                        return Err("tag type weight".into());
                    }
                }
            }
        }
        Ok(())
    }
}

/// The repository's real models, decoded with the mirror structs (so that plans stay data).
pub fn real_models() -> &'static [MModel] {
    static MODELS: std::sync::OnceLock<Vec<MModel>> = std::sync::OnceLock::new();
    MODELS.get_or_init(|| {
        #[allow(unused_mut)]
        let mut v = vec![];
        #[cfg(not(miri))]
        {
            let repo = std::env::var("VERIF_REPO").unwrap_or_else(|_| "/repo".into());
            if let Ok(b) = std::fs::read(std::path::Path::new(&repo).join("resources/model.bin")) {
                if let Some((m, _)) = MModel::from_bytes(&b) {
                    v.push(m);
                }
            }
            #[cfg(feature = "ffi")]
            if let Ok(f) = std::fs::File::open(std::path::Path::new(&repo).join("vaporetto_tantivy/test_model/model.zst")) {
                if let Ok(b) = zstd::decode_all(f) {
                    if let Some((m, _)) = MModel::from_bytes(&b) {
                        v.push(m);
                    }
                }
            }
        }
        v
    })
}

/// Pads the model with a dictionary comment so that its serialisation has exactly `target`
/// bytes (block-size boundaries of buffers are where off-by-one flushes hide). Returns false
/// if the size cannot be reached.
pub fn pad_to_size(m: &mut MModel, target: usize) -> bool {
    m.dict_model.retain(|d| d.word != "＿pad");
    m.dict_model.push(MWord { word: "＿pad".to_string(), weights: vec![0; 5], comment: String::new() });
    let base = m.to_bytes().len();
    if target < base {
        m.dict_model.pop();
        return false;
    }
    let mut n = target - base;
    for _ in 0..6 {
        m.dict_model.last_mut().unwrap().comment = "c".repeat(n);
        let got = m.to_bytes().len();
        if got == target {
            return true;
        }
        if got > target {
            n = n.saturating_sub(got - target);
        } else {
            n += target - got;
        }
    }
    m.dict_model.pop();
    false
}

#[derive(Clone, Copy, Debug)]
pub struct ModelKnobs {
    pub max_window: u8,
    pub max_type_window: u8,
    /// restrict patterns to the low-code-point core alphabet (daachorse's charwise builder
    /// allocates tables proportional to the largest code point; that matters under Miri)
    pub core_only: bool,
    /// serialisation stress: weights at the varint size thresholds and i32 extremes, long
    /// comments, empty tag strings. Such models are never used for prediction (scores overflow).
    pub extreme_values: bool,
    pub allow_big_windows: bool,
    pub max_entries: usize,
    pub want_tags: Option<bool>,
}

impl Default for ModelKnobs {
    fn default() -> Self {
        Self { max_window: 4, max_type_window: 12, core_only: false, extreme_values: false, allow_big_windows: true, max_entries: 8, want_tags: None }
    }
}

fn gen_window(rng: &mut Rng, k: &ModelKnobs, is_type: bool) -> u8 {
    // biased to 1..4, occasionally 0, 8, 12 (variable-length weight layout) when allowed.
    let w = match rng.weighted(&[30, 30, if is_type { 1 } else { 18 }, 8, 4, 4, 2]) {
        0 => 1,
        1 => 2,
        2 => 3,
        3 => 4,
        4 => 0,
        5 => 8,
        _ => 12,
    };
    if w > k.max_window && !(k.allow_big_windows && w >= 8) {
        1 + (rng.below(usize::from(k.max_window.max(1)))) as u8
    } else {
        w
    }
}

fn pat(rng: &mut Rng, n: usize, k: &ModelKnobs) -> String {
    if k.core_only {
        (0..n).map(|_| *rng.pick(&['a', 'b', '1', '2', 'z', '.'])).collect()
    } else {
        gen::gen_pattern(rng, n)
    }
}

fn gen_weights(rng: &mut Rng, n: usize) -> Vec<i32> {
    (0..n)
        .map(|_| match rng.below(10) {
            0 => 0,
            1 => rng.irange(-3000, 3000),
            _ => rng.irange(-40, 40),
        })
        .collect()
}

pub fn gen_model(rng: &mut Rng, k: &ModelKnobs) -> MModel {
    let cw = gen_window(rng, k, false);
    let tw = gen_window(rng, k, true).min(k.max_type_window);
    let cwu = usize::from(cw);
    let twu = usize::from(tw);
    let mut m = MModel {
        char_ngram_model: vec![],
        type_ngram_model: vec![],
        dict_model: vec![],
        bias: rng.irange(-30, 30),
        char_window_size: cw,
        type_window_size: tw,
        tag_models: vec![],
    };
    // character n-grams
    let n_char = if rng.chance(1, 10) { 0 } else { rng.range(1, k.max_entries) };
    let mut seen = std::collections::BTreeSet::new();
    for _ in 0..n_char {
        // usually short; sometimes up to the maximal length for the window
        let maxn = if rng.chance(1, 6) { (2 * cwu.max(1)).min(8) } else { (2 * cwu.max(1)).min(4) };
        let n = rng.range(1, maxn);
        let s = pat(rng, n, k);
        if !seen.insert(s.clone()) {
            continue;
        }
        let full = if cwu == 0 { 1 } else { 2 * cwu - n + 1 };
        let len = if cwu <= 7 && rng.chance(1, 8) { rng.range(0, full) } else { full };
        m.char_ngram_model.push(MNgram { ngram: s, weights: gen_weights(rng, len) });
    }
    // dictionary (some words are suffixes of n-grams, so the weight merger has work to do)
    let n_dict = if rng.chance(1, 3) { 0 } else { rng.range(1, (k.max_entries / 2).max(1)) };
    let mut seen = std::collections::BTreeSet::new();
    for _ in 0..n_dict {
        let w = if !m.char_ngram_model.is_empty() && rng.chance(1, 3) {
            let src = &rng.pick(&m.char_ngram_model).ngram;
            let cs: Vec<char> = src.chars().collect();
            let start = rng.below(cs.len());
            cs[start..].iter().collect::<String>()
        } else {
            let n = rng.range(1, 4);
            pat(rng, n, k)
        };
        if !seen.insert(w.clone()) {
            continue;
        }
        let n = w.chars().count();
        let comment = if rng.chance(1, 4) { pat(rng, 2, k) } else { String::new() };
        m.dict_model.push(MWord { word: w, weights: gen_weights(rng, n + 1), comment });
    }
    // type n-grams
    let n_type = if rng.chance(1, 10) { 0 } else { rng.range(1, k.max_entries) };
    let mut seen = std::collections::BTreeSet::new();
    for _ in 0..n_type {
        let maxn = if rng.chance(1, 6) { (2 * twu.max(1)).min(8) } else { (2 * twu.max(1)).min(4) };
        let n = rng.range(1, maxn);
        let g: Vec<u8> = (0..n).map(|_| rng.range(1, 6) as u8).collect();
        if !seen.insert(g.clone()) {
            continue;
        }
        let full = if twu == 0 { 1 } else { 2 * twu - n + 1 };
        let len = if twu <= 7 && rng.chance(1, 8) { rng.range(0, full) } else { full };
        m.type_ngram_model.push(MNgram { ngram: g, weights: gen_weights(rng, len) });
    }
    // tag models
    let with_tags = k.want_tags.unwrap_or_else(|| rng.chance(3, 5));
    if with_tags {
        let n_tm = rng.range(if k.want_tags == Some(true) { 1 } else { 0 }, 3);
        let mut seen = std::collections::BTreeSet::new();
        for _ in 0..n_tm {
            let n = rng.range(1, 2);
            // a third of the tag tokens coincide with a dictionary word or an n-gram of the model
            let token = if rng.chance(1, 3) && !m.dict_model.is_empty() {
                rng.pick(&m.dict_model).word.clone()
            } else if rng.chance(1, 3) && !m.char_ngram_model.is_empty() {
                rng.pick(&m.char_ngram_model).ngram.clone()
            } else {
                pat(rng, n, k)
            };
            if !seen.insert(token.clone()) {
                continue;
            }
            let n_cat = rng.range(0, 3);
            let mut tags = vec![];
            for _ in 0..n_cat {
                let n_cand = rng.range(0, 3);
                let mut c: Vec<String> = vec![];
                for _ in 0..n_cand {
                    // now and then a candidate that equals the token itself (the reading of a
                    // kana word is the word)
                    let t = if rng.chance(1, 8) { token.clone() } else { gen::gen_tag(rng) };
                    if !c.contains(&t) {
                        c.push(t);
                    }
                }
                tags.push(c);
            }
            let need: usize = tags.iter().map(|c| if c.len() >= 2 { c.len() } else { 0 }).sum();
            let mut tm = MTagModel {
                token,
                tags,
                char_ngram_model: vec![],
                type_ngram_model: vec![],
                bias: gen_weights(rng, need),
            };
            let mut seen_c = std::collections::BTreeSet::new();
            for _ in 0..rng.range(0, 3) {
                let n = rng.range(1, 2);
                let g = pat(rng, n, k);
                if !seen_c.insert(g.clone()) {
                    continue;
                }
                let mut ws = vec![];
                let mut pos_seen = vec![];
                for _ in 0..rng.range(1, 2) {
                    let rp = rng.range(0, cwu.min(255)) as u8;
                    if pos_seen.contains(&rp) {
                        continue;
                    }
                    pos_seen.push(rp);
                    ws.push(MTagWeight { rel_position: rp, weights: gen_weights(rng, need) });
                }
                tm.char_ngram_model.push(MTagNgram { ngram: g, weights: ws });
            }
            let mut seen_t = std::collections::BTreeSet::new();
            for _ in 0..rng.range(0, 3) {
                let n = rng.range(1, 2);
                let g: Vec<u8> = (0..n).map(|_| rng.range(1, 6) as u8).collect();
                if !seen_t.insert(g.clone()) {
                    continue;
                }
                let mut ws = vec![];
                let mut pos_seen = vec![];
                for _ in 0..rng.range(1, 2) {
                    let rp = rng.range(0, twu.min(255)) as u8;
                    if pos_seen.contains(&rp) {
                        continue;
                    }
                    pos_seen.push(rp);
                    ws.push(MTagWeight { rel_position: rp, weights: gen_weights(rng, need) });
                }
                tm.type_ngram_model.push(MTagNgram { ngram: g, weights: ws });
            }
            m.tag_models.push(tm);
        }
    }
    if k.core_only && rng.chance(3, 5) {
        // thread tier: a tag-dense model. A large bias makes every character its own token and
        // the tokens "a", "b" and "é" (two bytes) carry several candidates with different scores, so that nearly
        // every fill_tags call on a text over {a, b, ...} does real, token-specific work.
        m.bias = 1000 + rng.irange(0, 50);
        m.tag_models.retain(|t| t.token != "a" && t.token != "b" && t.token != "é");
        for (tok, sign) in [("a", 1), ("b", -1), ("é", 1)] {
            let n_cat = rng.range(1, 2);
            let mut tags = vec![];
            for c in 0..n_cat {
                tags.push(vec![format!("{tok}{c}x"), format!("{tok}{c}y"), format!("{tok}{c}z")][..rng.range(2, 3)].to_vec());
            }
            let need: usize = tags.iter().map(|c| c.len()).sum();
            let bias: Vec<i32> = (0..need).map(|i| sign * (i as i32 * 7 - 5) + rng.irange(-2, 2)).collect();
            m.tag_models.push(MTagModel { token: tok.to_string(), tags, char_ngram_model: vec![], type_ngram_model: vec![], bias });
        }
    }
    if k.extreme_values {
        const EDGE: [i32; 14] = [i32::MIN, i32::MAX, -1, 0, 125, 126, -126, 250, 251, -32768, 65535, 65536, -65537, 1 << 30];
        let tweak = |w: &mut Vec<i32>, rng: &mut Rng| {
            for x in w.iter_mut() {
                if rng.chance(1, 3) {
                    *x = *rng.pick(&EDGE);
                }
            }
        };
        for d in m.char_ngram_model.iter_mut() {
            tweak(&mut d.weights, rng);
        }
        for d in m.type_ngram_model.iter_mut() {
            tweak(&mut d.weights, rng);
        }
        for d in m.dict_model.iter_mut() {
            tweak(&mut d.weights, rng);
            if rng.chance(1, 4) {
                let n = rng.range(240, 300);
                d.comment = (0..n).map(|_| *rng.pick(gen::CORE)).collect();
            }
        }
        for t in m.tag_models.iter_mut() {
            for c in t.tags.iter_mut() {
                if rng.chance(1, 4) && !c.contains(&String::new()) {
                    c.push(String::new());
                }
            }
            let need: usize = t.tags.iter().map(|c| if c.len() >= 2 { c.len() } else { 0 }).sum();
            t.bias.resize(need, -1);
            tweak(&mut t.bias, rng);
            for d in t.char_ngram_model.iter_mut() {
                for w in d.weights.iter_mut() {
                    w.weights.resize(need, -1);
                }
            }
            for d in t.type_ngram_model.iter_mut() {
                for w in d.weights.iter_mut() {
                    w.weights.resize(need, 1 << 20);
                }
            }
        }
        m.bias = *rng.pick(&EDGE);
        if rng.chance(1, 6) {
            // one string field larger than any I/O buffer
            let n = rng.range(8000, 20000);
            let big: String = (0..n).map(|_| *rng.pick(gen::CORE)).collect();
            match rng.below(3) {
                0 if !m.dict_model.is_empty() => m.dict_model[0].comment = big,
                1 if m.tag_models.iter().any(|t| t.tags.iter().any(|c| !c.is_empty())) => {
                    let t = m.tag_models.iter_mut().find(|t| t.tags.iter().any(|c| !c.is_empty())).unwrap();
                    let c = t.tags.iter_mut().find(|c| !c.is_empty()).unwrap();
                    c[0] = big;
                }
                _ => {
                    let w = big.chars().count();
                    m.dict_model.retain(|d| d.word != big);
                    m.dict_model.push(MWord { word: big, weights: vec![1; w + 1], comment: String::new() });
                }
            }
        }
    }
    m
}
