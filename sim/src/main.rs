//! vsim — deterministic simulation with fault injection for vaporetto.
//!
//!   vsim check <C05|C07|C08|C17|C20> <quick|thorough|tiny>   driver: spawn workers, merge, evidence
//!   vsim worker ...                                           one worker over a range of runs
//!   vsim replay <file>                                        re-execute a replay file
//!   vsim exec-run <prop> <seed> <run>                         execute one generated run (abort triage)
//!
//! Exit codes: 0 = property held on everything explored, 1 = violation (with a VIOLATION line),
//! 2 = harness error (never a VIOLATION line).

mod c07;
mod c17;
mod common;
mod gen;
mod hist_engine;
mod histsim;
mod iosim;
mod kygen;
mod mmodel;
mod obs;
mod procsim;
mod refparse;
mod rng;

use std::io::Write;
use std::os::unix::fs::FileExt;
use std::os::unix::process::ExitStatusExt;
use std::path::PathBuf;
use std::process::Command;
use std::time::Instant;

use common::*;
use serde_json::json;

fn harness_error(msg: &str) -> ! {
    eprintln!("HARNESS-ERROR: {msg}");
    std::process::exit(2)
}

fn seed_from_env() -> u64 {
    match std::env::var("VERIF_SEED") {
        Ok(s) if !s.trim().is_empty() => s.trim().parse().unwrap_or_else(|_| harness_error("VERIF_SEED must be an integer")),
        _ => DEFAULT_SEED,
    }
}

fn n_workers() -> u64 {
    std::env::var("VERIF_WORKERS")
        .ok()
        .and_then(|s| s.parse().ok())
        .unwrap_or_else(|| std::thread::available_parallelism().map(|n| n.get() as u64).unwrap_or(4).min(16))
        .max(1)
}

fn runs_for(property: &str, tier: Tier) -> u64 {
    if let Some(n) = std::env::var("VERIF_RUNS").ok().and_then(|s| s.parse().ok()) {
        return n;
    }
    match (property, tier) {
        ("C05", Tier::Tiny) | ("C08", Tier::Tiny) => 4_000,
        ("C05", Tier::Quick) => 300_000,
        ("C05", Tier::Thorough) => 20_000_000,
        ("C08", Tier::Quick) => 200_000,
        ("C08", Tier::Thorough) => 10_000_000,
        ("C07", Tier::Tiny) => 40,
        ("C07", Tier::Quick) => 4_000,
        ("C07", Tier::Thorough) => 1_000_000,
        ("C17", Tier::Tiny) => 20,
        ("C17", Tier::Quick) => 1_200,
        ("C17", Tier::Thorough) => 200_000,
        ("C20", Tier::Tiny) => 200,
        ("C20", Tier::Quick) => 8_000,
        ("C20", Tier::Thorough) => 2_000_000,
        _ => 1000,
    }
}

fn worker_main(args: &[String]) {
    // worker <prop> <tier> <seed> <start> <end> <out> <progress> <digests:0|1>
    if args.len() < 8 {
        harness_error("worker: bad arguments");
    }
    let property = args[0].as_str();
    let _tier = Tier::parse(&args[1]).unwrap_or(Tier::Quick);
    let seed: u64 = args[2].parse().unwrap();
    let start: u64 = args[3].parse().unwrap();
    let end: u64 = args[4].parse().unwrap();
    let out = PathBuf::from(&args[5]);
    let progress_file = std::fs::OpenOptions::new().create(true).write(true).truncate(true).open(&args[6]).unwrap();
    let keep = args[7] == "1";
    let mut progress = |run: u64| {
        let _ = progress_file.write_at(&run.to_le_bytes(), 0);
    };
    obs::install_quiet_hook();
    // library panics are caught where the library is called; a panic that escapes to here is
    // the harness's own (generator or oracle bug): a harness error, never a violation
    let sum = std::panic::catch_unwind(std::panic::AssertUnwindSafe(|| match property {
        "C05" | "C08" => hist_engine::worker(property, seed, start, end, &mut progress, keep),
        "C07" => c07::worker(seed, start, end, &mut progress, keep),
        "C17" => c17::worker(seed, start, end, &mut progress, keep),
        "C20" => procsim::worker(seed, start, end, &mut progress, keep),
        _ => harness_error("worker: unknown property"),
    }));
    let sum = match sum {
        Ok(s) => s,
        Err(_) => harness_error(&format!("the harness itself panicked in a run of {start}..{end}: {}", obs::last_panic())),
    };
    std::fs::write(&out, serde_json::to_vec(&sum).unwrap()).unwrap();
}

struct PropInfo {
    level: &'static str,
    rule: &'static str,
    real: Vec<&'static str>,
    stubs: Vec<&'static str>,
    assumptions: Vec<&'static str>,
}

fn prop_info(property: &str) -> PropInfo {
    match property {
        "C05" => PropInfo {
            level: "exploration",
            rule: "one case = one seeded plan (models as bytes, predictors, 1..4 clients x 1..24 operations, interleaving vector) executed step by step against a shadow sentence rebuilt by the matching constructor at every update; a case is non-trivial when it contains at least one failed update (the injected fault), a predictor switch, a predictor shared by several clients or a panic; distinct = distinct fingerprints (hash of the sequence of (operation kind, outcome class)) among non-trivial cases",
            real: vec!["vaporetto::Sentence (all parsers, accessors, writers, iterator)", "vaporetto::Predictor / Model::read_slice", "vaporetto_rules filters"],
            stubs: vec![],
            assumptions: vec![
                "the fresh constructor is the reference model for an update (same interface, no history); generator ground truth is used in addition for exact renderings",
                "tag_candidates() and fill_tags() are exercised only inside their documented preconditions",
                "totality over 'every input string' is covered to the extent of the seeded string generator (45+ symbol alphabet incl. NUL, escapes, delimiters)",
            ],
        },
        "C08" => PropInfo {
            level: "exploration",
            rule: "one case = one seeded plan (models as bytes, 1..3 predictors, 1..4 clients x up to 27 operations ending in update_raw; predict; [fill_tags], interleaving vector); after every in-segment step the reused sentence must equal a shadow that has no history before the last update; non-trivial = contains a failed update, a predictor switch without update, a predictor shared by several clients or a panic; distinct = distinct fingerprints (hash of the sequence of (operation kind, outcome class))",
            real: vec!["vaporetto::Sentence", "vaporetto::Predictor (all scorer variants)", "vaporetto_rules filters", "Miri tier: real std::thread clients on the real library"],
            stubs: vec![],
            assumptions: vec![
                "op-level interleavings only in the plain build; sub-operation interleavings come from the Miri tier (thorough)",
                "tag_candidates() is observed only after fill_tags with a tagging, score-storing predictor that has at least one tag slot",
            ],
        },
        "C07" => PropInfo {
            level: "fault_enumeration",
            rule: "one case = one (model, scenario, fault point or schedule) encode/decode attempt; per model every byte offset is enumerated as a crash point for failing writes (+restart on the accepted bytes), truncated reads (whole / chunked reader / slice) and hard read errors; headers, benign short/interrupted schedules, trailing bytes and texts are seeded. Non-trivial = an attempt in which a fault actually fired; distinct = counted once per distinct model (keyed by the hash of its serialisation), so distinct_nontrivial = sum over distinct models of their faulted attempts",
            real: vec!["Model::{to_vec, write, read, read_slice}", "bincode encode/decode", "Predictor built from the re-read model", "std::io::BufReader"],
            stubs: vec!["FaultyReader / FaultyWriter (simulated Read / Write endpoints executing an explicit fault schedule)"],
            assumptions: vec![
                "models are generated as bytes with mirror structs of ModelData (Model has no public constructor); the generator's well-formedness checker guards it",
                "bit flips, reordered or lost writes and hostile length prefixes are deliberately not injected: the format has no checksum and the property does not promise their detection",
                "exhaustive per model over crash points; models themselves are sampled",
            ],
        },
        "C17" => PropInfo {
            level: "fault_enumeration",
            rule: "one case = one (KyTea file, scenario, fault point or schedule) read+convert attempt; per file every byte offset is enumerated as truncation point (slice / chunked BufRead / BufReader) and as hard-error point; read schedules are seeded. Non-trivial = a fault fired; distinct = counted once per distinct file (hash of its bytes): distinct_nontrivial = sum over distinct files of their faulted attempts",
            real: vec!["KyteaModel::read", "TryFrom<KyteaModel> for Model", "Model::to_vec / read_slice", "Predictor on the converted model", "std::io::BufReader", "the real convert_kytea_model binary (every third file; complete file and three truncations, under the read/write interposer)"],
            stubs: vec!["FaultyReader / FaultyBufRead (simulated Read / BufRead endpoints)", "harness-side KyTea file writer (generator)"],
            assumptions: vec![
                "K1 (conversion equals the generator's ground truth) is an input-quantified clause riding along as the workload's functional oracle; its coverage is that of the file generator",
                "prefixes that only cut bytes the reader never consumes parse to the identical model; they are counted, not flagged",
            ],
        },
        "C20" => PropInfo {
            level: "exploration",
            rule: "one case = one seeded process run of the real predict/evaluate binary (generated model, flag set, stdin stream of 0..12 lines, interposer seed or none; 30 % of predict cases also run the opposite normalisation mode on normaliser fixed points); non-trivial = the interposer actually fired (short read/write, EINTR) or the stream contains an empty/rejected line; distinct = distinct fingerprints (hash of tool, argv, per-line class sequence and the interposer's decision-trace hash)",
            real: vec!["target/release/predict and evaluate built from the current tree (clap, zstd, std::io buffering, main loops)", "vaporetto + vaporetto_rules inside the tools", "reference pipeline: the library on fresh sentences, in-process"],
            stubs: vec!["read(2)/write(2)/writev(2) as seen by the tool: LD_PRELOAD interposer shim/iofault.c (short counts, EINTR; fd 2 untouched)"],
            assumptions: vec![
                "the layout of score and tag-score blocks is defined as what the normalising mode prints on the pinned tree (also the README layout) and demanded unchanged under --no-norm; a metamorphic mode-pair check backs this independently of layout constants",
                "blocks are expected only for accepted lines; --tag-scores without --predict-tags may be answered by a clean usage error",
                "only benign stream nondeterminism is injected (chunking, EINTR, short writes); the statement says nothing about hard I/O errors",
                "stdin, stdout and the model are regular files, so every short count and EINTR comes from the interposer; the tools are single-threaded",
            ],
        },
        _ => harness_error("unknown property"),
    }
}

fn check_main(args: &[String]) {
    if args.len() < 2 {
        harness_error("usage: vsim check <property> <quick|thorough>");
    }
    let property = args[0].as_str();
    let tier = Tier::parse(&args[1]).unwrap_or_else(|| harness_error("tier must be quick or thorough"));
    let seed = seed_from_env();
    let digests_out = std::env::var("VERIF_DIGESTS_OUT").ok();
    println!("VERIF_SEED={seed} property={property} tier={}", args[1]);
    let t0 = Instant::now();
    let info = prop_info(property);
    let total = runs_for(property, tier);
    let w = n_workers().min(total.max(1));
    let scratch = verif_dir().join(".build").join("work").join(format!("{property}-{}", std::process::id()));
    let _ = std::fs::remove_dir_all(&scratch);
    std::fs::create_dir_all(&scratch).unwrap_or_else(|e| harness_error(&format!("cannot create scratch dir: {e}")));
    let exe = std::env::current_exe().unwrap();
    let mut children = vec![];
    for k in 0..w {
        let start = total * k / w;
        let end = total * (k + 1) / w;
        let out = scratch.join(format!("w{k}.json"));
        let prog = scratch.join(format!("w{k}.progress"));
        let child = Command::new(&exe)
            .args([
                "worker",
                property,
                &args[1],
                &seed.to_string(),
                &start.to_string(),
                &end.to_string(),
                out.to_str().unwrap(),
                prog.to_str().unwrap(),
                if digests_out.is_some() { "1" } else { "0" },
            ])
            .env("VERIF_SCRATCH", &scratch)
            .spawn()
            .unwrap_or_else(|e| harness_error(&format!("cannot spawn worker: {e}")));
        children.push((k, start, end, out, prog, child));
    }
    let mut sum = Summary::default();
    // watchdog: every worker must move on to its next run within a bounded time (liveness);
    // a run that does not finish is reported as `hang` with its plan as replay file
    let limit = std::time::Duration::from_secs(std::env::var("VERIF_RUN_TIMEOUT_S").ok().and_then(|s| s.parse().ok()).unwrap_or(300));
    let read_progress = |prog: &PathBuf| -> Option<u64> {
        let mut buf = [0u8; 8];
        std::fs::File::open(prog).ok().and_then(|f| f.read_at(&mut buf, 0).ok()).filter(|&n| n == 8).map(|_| u64::from_le_bytes(buf))
    };
    let mut finished: Vec<(u64, u64, u64, PathBuf, PathBuf, Option<std::process::ExitStatus>, bool)> = vec![];
    {
        let mut live: Vec<_> = children.into_iter().map(|c| (c, None::<u64>, Instant::now())).collect();
        while !live.is_empty() {
            let mut i = 0;
            while i < live.len() {
                let ((k, start, end, out, prog, child), last, since) = &mut live[i];
                match child.try_wait().unwrap() {
                    Some(st) => {
                        finished.push((*k, *start, *end, out.clone(), prog.clone(), Some(st), false));
                        live.swap_remove(i);
                        continue;
                    }
                    None => {
                        let cur = read_progress(prog);
                        if cur != *last {
                            *last = cur;
                            *since = Instant::now();
                        } else {
                            let minimising = cur.map(|c| c & common::MINIMISING != 0).unwrap_or(false);
                            let lim = if minimising { limit * 6 } else { limit };
                            if since.elapsed() > lim {
                                let _ = child.kill();
                                let _ = child.wait();
                                finished.push((*k, *start, *end, out.clone(), prog.clone(), None, true));
                                live.swap_remove(i);
                                continue;
                            }
                        }
                    }
                }
                i += 1;
            }
            std::thread::sleep(std::time::Duration::from_millis(50));
        }
    }
    finished.sort_by_key(|f| f.0);
    for (k, start, end, out, prog, status, hung) in finished {
        if hung {
            let run = read_progress(&prog).map(|r| r & !common::MINIMISING).unwrap_or(start);
            eprintln!("worker {k} (runs {start}..{end}) made no progress for {limit:?} in run {run}: killed");
            let path = replay_path(property, seed, run, "-hang");
            let rf = ReplayFile {
                property: property.to_string(),
                engine: engine_of(property).into(),
                verif_seed: seed,
                run,
                class: "hang".into(),
                signature: "no-progress".into(),
                detail: format!("the run did not finish within {limit:?} (bounded-progress violation); plan stored unminimised"),
                original_size: 0,
                minimised_size: 0,
                minimiser_executions: 0,
                plan: plan_value(property, seed, run),
                miri_seed: None,
            };
            let _ = write_json(&path, &rf);
            sum.runs += run.saturating_sub(start) + 1;
            sum.violations.push(ViolationRec {
                property: property.to_string(),
                run,
                class: "hang".into(),
                signature: "no-progress".into(),
                detail: rf.detail,
                replay: path.display().to_string(),
            });
            sum.notes.insert(format!("worker {k} hung in run {run}; runs {}..{end} of its range were not executed", run + 1));
            continue;
        }
        let status = status.unwrap();
        if status.success() {
            let b = std::fs::read(&out).unwrap_or_else(|e| harness_error(&format!("worker {k} left no summary: {e}")));
            let s: Summary = serde_json::from_slice(&b).unwrap_or_else(|e| harness_error(&format!("worker {k} summary: {e}")));
            sum.merge(s);
        } else if status.code() == Some(2) {
            harness_error(&format!("worker {k} reported a harness error"));
        } else {
            // the worker died (abort, e.g. a std unsafe-precondition check, or a signal):
            // the run it was executing is the violation
            let run = read_progress(&prog).map(|r| r & !common::MINIMISING).unwrap_or(start);
            let how = match status.signal() {
                Some(sig) => format!("signal {sig}"),
                None => format!("exit status {:?}", status.code()),
            };
            eprintln!("worker {k} (runs {start}..{end}) died with {how} in run {run}");
            let rec = abort_triage(property, seed, run, &how);
            sum.runs += run.saturating_sub(start) + 1;
            sum.violations.push(rec);
            sum.notes.insert(format!("worker {k} aborted in run {run}; runs {}..{end} of its range were not executed", run + 1));
        }
    }
    let _ = std::fs::remove_dir_all(&scratch);
    if let Some(p) = digests_out {
        let mut d = sum.run_digests.clone();
        d.sort();
        let mut f = std::fs::File::create(&p).unwrap();
        for (r, h) in d {
            writeln!(f, "{r} {h:016x}").unwrap();
        }
    }
    sum.run_digests.clear();
    let mut extra = json!({});
    if property == "C08" && std::env::var("VERIF_SKIP_MIRI").is_err() {
        let (n_seeds, n_plans, reps) = match tier {
            Tier::Thorough => (128, 3, 6),
            Tier::Quick => (16, 3, 2),
            Tier::Tiny => (4, 1, 2),
        };
        let m = miri_tier(seed, n_seeds, n_plans, reps, None, false);
        sum.count("miri-tier:scheduler-seeds", m.miri_seeds);
        sum.count("miri-tier:seeds-completed", m.ok_lines);
        sum.count("miri-tier:concurrent-client-threads", m.threads);
        sum.count("miri-tier:operations", m.operations);
        sum.count("miri-tier:distinct-plan-blocks", m.blocks.len() as u64);
        extra = json!({"miri_tier": {
            "flags": format!("-Zmiri-many-seeds=0..{n_seeds} -Zmiri-preemption-rate=0.1"),
            "plans_per_seed": n_plans, "concurrent_repetitions_per_plan": reps,
            "seeds_completed": m.ok_lines, "wall_s": (m.wall_s * 10.0).round() / 10.0,
            "what": "real std::thread clients sharing &Predictor on the real library; Miri decides every preemption from its seed and reports data races / UB; results compared with the serial run",
        }});
        if let Some(v) = m.violation {
            sum.violations.push(v);
        } else if tier == Tier::Thorough || std::env::var("VERIF_MIRI_LONG_TEXTS").is_ok() {
            // second batch, thorough only: two clients with texts of 1024+ characters (the size
            // class in which shared state for "long inputs" would engage); ~1 minute per seed
            let m2 = miri_tier(seed, 16, 1, 2, None, true);
            sum.count("miri-tier:long-text-seeds-completed", m2.ok_lines);
            sum.count("miri-tier:long-text-operations", m2.operations);
            if let Some(v) = m2.violation {
                sum.violations.push(v);
            }
        }
    }
    finish(property, tier, seed, &info, sum, t0, extra);
}

/// Executes the plan of a replay-format file in a fresh process; true if that process dies
/// abnormally (abort / signal), i.e. neither passes, reports a violation nor a harness error.
fn dies_in_subprocess(plan_file: &std::path::Path) -> bool {
    let exe = std::env::current_exe().unwrap();
    Command::new(&exe)
        .args(["exec-plan", plan_file.to_str().unwrap()])
        .stdout(std::process::Stdio::null())
        .stderr(std::process::Stdio::null())
        .status()
        .map(|s| !matches!(s.code(), Some(0) | Some(1) | Some(2)))
        .unwrap_or(false)
}

fn abort_triage(property: &str, seed: u64, run: u64, how: &str) -> ViolationRec {
    // confirm in a fresh process; for histsim plans minimise by delta debugging where every
    // candidate is executed in its own process (the failure kills the process it happens in)
    let mut plan = plan_value(property, seed, run);
    let path = replay_path(property, seed, run, "-abort");
    let class = "process-abort".to_string();
    let tmp = path.with_extension("cand.json");
    let mk = |plan: &serde_json::Value, detail: String, orig: usize, min: usize, execs: usize| ReplayFile {
        property: property.to_string(),
        engine: engine_of(property).into(),
        verif_seed: seed,
        run,
        class: "process-abort".into(),
        signature: "worker-process-died".into(),
        detail,
        original_size: orig,
        minimised_size: min,
        minimiser_executions: execs,
        plan: plan.clone(),
        miri_seed: None,
    };
    let _ = write_json(&tmp, &mk(&plan, String::new(), 0, 0, 0));
    let confirmed = dies_in_subprocess(&tmp);
    let mut execs = 1usize;
    let (mut orig, mut min) = (0usize, 0usize);
    if confirmed && matches!(property, "C05" | "C08") {
        if let Ok(mut hp) = serde_json::from_value::<histsim::HistPlan>(plan.clone()) {
            orig = hp.n_ops();
            let mut budget = 200usize;
            let test = |cand: &histsim::HistPlan| -> bool {
                let _ = write_json(&tmp, &mk(&serde_json::to_value(cand).unwrap(), String::new(), 0, 0, 0));
                dies_in_subprocess(&tmp)
            };
            // drop clients, then operations
            let mut ci = 0;
            while hp.clients.len() > 1 && ci < hp.clients.len() && budget > 0 {
                let mut cand = hp.clone();
                cand.clients.remove(ci);
                cand.interleave.clear();
                budget -= 1;
                if test(&cand) {
                    hp = cand;
                } else {
                    ci += 1;
                }
            }
            for ci in 0..hp.clients.len() {
                let base = hp.clone();
                let kept = ddmin(hp.clients[ci].clone(), &mut budget, |ops| {
                    let mut cand = base.clone();
                    cand.clients[ci] = ops.to_vec();
                    cand.interleave.clear();
                    test(&cand)
                });
                hp.clients[ci] = kept;
                hp.interleave.clear();
            }
            execs += 200 - budget;
            min = hp.n_ops();
            plan = serde_json::to_value(&hp).unwrap();
        }
    }
    let _ = std::fs::remove_file(&tmp);
    let rf = mk(
        &plan,
        format!("worker process died ({how}), e.g. a std unsafe-precondition check or debug assertion that aborts; reproduced in a fresh process: {confirmed}"),
        orig,
        min,
        execs,
    );
    let _ = write_json(&path, &rf);
    ViolationRec {
        property: property.to_string(),
        run,
        class,
        signature: "worker-process-died".into(),
        detail: rf.detail,
        replay: path.display().to_string(),
    }
}

fn finish(property: &str, tier: Tier, seed: u64, info: &PropInfo, mut sum: Summary, t0: Instant, extra: serde_json::Value) {
    if !sum.harness_errors.is_empty() {
        for e in &sum.harness_errors {
            eprintln!("HARNESS-ERROR: {e}");
        }
        std::process::exit(2);
    }
    sum.violations.sort_by(|a, b| a.run.cmp(&b.run).then(a.class.cmp(&b.class)));
    let known = load_known();
    let mut n_known = 0;
    let mut unlisted = vec![];
    let mut printed = std::collections::BTreeSet::new();
    for v in &sum.violations {
        if let Some(k) = known.matches(v) {
            n_known += 1;
            if printed.insert((k.class.clone(), k.signature.clone())) {
                println!("KNOWN-FINDING: property={} {} [{} {}]", v.property, k.what, k.class, k.signature);
            }
        } else {
            unlisted.push(v.clone());
        }
    }
    let wall = t0.elapsed().as_secs_f64();
    write_evidence(EvidenceInput {
        property,
        tier,
        seed,
        level: info.level,
        rule: info.rule,
        wall_s: wall,
        summary: &sum,
        violations: unlisted.len(),
        known: n_known,
        assumptions: info.assumptions.iter().map(|s| s.to_string()).collect(),
        real: info.real.clone(),
        stubs: info.stubs.clone(),
        exhaustive: false,
        evaluations_are_steps: matches!(property, "C07" | "C17"),
        extra,
    });
    println!(
        "property={property} runs={} steps={} distinct_nontrivial={} states={} transitions={} wall={:.1}s",
        sum.runs,
        sum.steps,
        sum.fingerprints.len() as u64 + sum.weighted_distinct.values().sum::<u64>(),
        sum.states.len(),
        sum.transitions.len(),
        wall
    );
    for (k, v) in &sum.counters {
        println!("  {k} = {v}");
    }
    if unlisted.is_empty() {
        println!("OK property={property}");
        std::process::exit(0);
    }
    for v in &unlisted {
        println!("violation class={} signature={} run={} detail={}", v.class, v.signature, v.run, truncate(&v.detail, 600));
        println!("VIOLATION property={} replay={}", v.property, v.replay);
    }
    std::process::exit(1);
}

fn truncate(s: &str, n: usize) -> String {
    if s.chars().count() <= n {
        s.to_string()
    } else {
        let t: String = s.chars().take(n).collect();
        format!("{t}…")
    }
}

fn replay_main(args: &[String]) {
    if args.is_empty() {
        harness_error("usage: vsim replay <file>");
    }
    let b = std::fs::read(&args[0]).unwrap_or_else(|e| harness_error(&format!("cannot read replay file: {e}")));
    let rf: ReplayFile = serde_json::from_slice(&b).unwrap_or_else(|e| harness_error(&format!("bad replay file: {e}")));
    obs::install_quiet_hook();
    println!("replaying property={} engine={} class={} seed={} run={}", rf.property, rf.engine, rf.class, rf.verif_seed, rf.run);
    if rf.class == "process-abort" {
        // the failure kills the process it happens in: replay in a child process
        if dies_in_subprocess(std::path::Path::new(&args[0])) {
            println!("class=process-abort");
            println!("detail={}", rf.detail);
            println!("REPRODUCED: the process executing this plan dies again");
            println!("VIOLATION property={} replay={}", rf.property, args[0]);
            std::process::exit(1);
        }
        println!("NOT-REPRODUCED: the plan no longer kills the process that executes it");
        std::process::exit(0);
    }
    let r = match rf.engine.as_str() {
        "histsim" => hist_engine::replay(&rf),
        "iosim-c07" => c07::replay(&rf),
        "iosim-c17" => c17::replay(&rf),
        "procsim" => procsim::replay(&rf),
        "histsim-miri" => {
            let n_plans = rf.plan["n_plans"].as_u64().unwrap_or(1);
            let reps = rf.plan["reps"].as_u64().unwrap_or(1);
            let m = miri_tier(rf.verif_seed, 1, n_plans, reps, Some(rf.miri_seed.unwrap_or(0)), rf.plan["long_texts"].as_bool().unwrap_or(false));
            Ok(m.violation.map(|v| (v.class, v.detail, vec![format!("Miri seed {:?}", rf.miri_seed)])))
        }
        _ => harness_error("unknown engine in replay file"),
    };
    match r {
        Err(e) => harness_error(&e),
        Ok(None) => {
            println!("NOT-REPRODUCED: the plan passes on this tree");
            std::process::exit(0);
        }
        Ok(Some((class, detail, log))) => {
            for l in log {
                println!("  {l}");
            }
            println!("class={class}");
            println!("detail={}", truncate(&detail, 2000));
            if class == rf.class {
                println!("REPRODUCED: same violation class as recorded");
            } else {
                println!("REPRODUCED-DIFFERENT-CLASS: recorded {}", rf.class);
            }
            println!("VIOLATION property={} replay={}", rf.property, args[0]);
            std::process::exit(1);
        }
    }
}

fn exec_run_main(args: &[String]) {
    // exec-run <prop> <seed> <run>: exit 0 pass, 1 violation, 2 harness error, abort = abort
    let property = args[0].as_str();
    let seed: u64 = args[1].parse().unwrap();
    let run: u64 = args[2].parse().unwrap();
    obs::install_quiet_hook();
    match property {
        "C05" | "C08" => {
            let plan = hist_engine::plan_for(property, seed, run, false);
            match hist_engine::run_plan(&plan, Some(hist_engine::focus_of(property)), false, None) {
                hist_engine::PlanResult::Pass(_) => std::process::exit(0),
                hist_engine::PlanResult::Violation(..) => std::process::exit(1),
                hist_engine::PlanResult::HarnessError(_) => std::process::exit(2),
            }
        }
        "C07" => {
            let plan = c07::plan_for(seed, run, &c07::real_files());
            std::process::exit(if c07::execute(&plan).0.is_some() { 1 } else { 0 })
        }
        "C17" => {
            let plan = c17::plan_for(seed, run, &c17::real_files());
            std::process::exit(if c17::execute(&plan).0.is_some() { 1 } else { 0 })
        }
        "C20" => {
            let plan = procsim::plan_for(seed, run);
            match procsim::Env::from_env().and_then(|env| procsim::execute(&env, &plan)) {
                Ok((None, _)) => std::process::exit(0),
                Ok((Some(_), _)) => std::process::exit(1),
                Err(e) => {
                    eprintln!("HARNESS-ERROR: {e}");
                    std::process::exit(2)
                }
            }
        }
        _ => std::process::exit(2),
    }
}

/// Thread tier, meant to run under Miri: `miri-run <seed> <n_plans> <reps> [block]`.
/// Every plan is first executed serially, then `reps` times with one real thread per client
/// sharing the predictors; Miri's seeded scheduler decides every preemption. Which block of
/// plans is executed is derived from Miri's own seeded randomness (the keys of a `RandomState`),
/// so that `-Zmiri-many-seeds` explores different plans per Miri seed while `-Zmiri-seed=k`
/// alone still identifies the execution exactly.
fn miri_run_main(args: &[String]) {
    use std::hash::{BuildHasher, Hasher};
    let seed: u64 = args[0].parse().unwrap();
    let n_plans: u64 = args[1].parse().unwrap();
    let reps: usize = args.get(2).and_then(|s| s.parse().ok()).unwrap_or(1);
    let block: u64 = match args.get(3).and_then(|s| s.parse().ok()) {
        Some(b) => b,
        None => std::collections::hash_map::RandomState::new().build_hasher().finish() % (1 << 20),
    };
    let long = args.get(4).map(|s| s == "long").unwrap_or(false);
    let start = block * n_plans + if long { hist_engine::LONG_TEXT_RUN_BASE } else { 0 };
    let end = start + n_plans;
    let mut threads = 0usize;
    let mut ops = 0usize;
    for run in start..end {
        let t0 = Instant::now();
        let plan = hist_engine::plan_for("C08", seed, run, true);
        let t1 = Instant::now();
        let build = || match histsim::build_predictors(&plan) {
            histsim::Built::Ok(p) => p,
            histsim::Built::HarnessError(e) => {
                eprintln!("HARNESS-ERROR: run {run}: {e}");
                std::process::exit(2)
            }
        };
        // reference on its own predictors; the threads get a second, unused (cold) set
        let serial = {
            let preds_ref = build();
            histsim::serial_traces(&plan, &preds_ref)
        };
        let preds = build();
        threads += plan.clients.len() * reps;
        ops += plan.n_ops() * (reps + 1);
        let t2 = Instant::now();
        let r = histsim::execute_threaded(&plan, &preds, &serial, reps);
        if std::env::var("VERIF_MIRI_TIMING").is_ok() {
            eprintln!("run {run}: gen {:?} build {:?} exec {:?}", t1 - t0, t2 - t1, t2.elapsed());
        }
        if let Some(v) = r {
            println!("MIRI-TIER-VIOLATION block={block} run={run} class={} client={} op={} detail={}", v.class, v.client, v.op_index, v.detail);
            std::process::exit(1);
        }
    }
    println!("miri-run ok seed={seed} block={block} plans={start}..{end} reps={reps} client_threads={threads} operations={ops}");
}

#[derive(Default)]
struct MiriOutcome {
    miri_seeds: u64,
    ok_lines: u64,
    threads: u64,
    operations: u64,
    blocks: std::collections::BTreeSet<u64>,
    violation: Option<ViolationRec>,
    wall_s: f64,
}

/// Runs the thread tier under `cargo +nightly miri` with `n_seeds` scheduler seeds.
fn miri_tier(seed: u64, n_seeds: u64, n_plans: u64, reps: u64, only_seed: Option<u64>, long: bool) -> MiriOutcome {
    let t0 = Instant::now();
    let mut out = MiriOutcome::default();
    let build = PathBuf::from(std::env::var("VERIF_BUILD").unwrap_or_else(|_| harness_error("VERIF_BUILD is not set (run through ./check)")));
    let flags = match only_seed {
        Some(k) => format!("-Zmiri-seed={k} -Zmiri-preemption-rate=0.1"),
        None => format!("-Zmiri-many-seeds=0..{n_seeds} -Zmiri-preemption-rate=0.1"),
    };
    let res = Command::new("cargo")
        .args(["+nightly", "miri", "run", "--offline", "--no-default-features", "--manifest-path"])
        .arg(build.join("crate/Cargo.toml"))
        .args(["--", "miri-run", &seed.to_string(), &n_plans.to_string(), &reps.to_string()])
        .args(if long { vec!["-", "long"] } else { vec![] })
        .env("MIRIFLAGS", &flags)
        .env("CARGO_TARGET_DIR", build.join("miri-target"))
        .env_remove("RUSTFLAGS")
        .output();
    let res = match res {
        Ok(r) => r,
        Err(e) => harness_error(&format!("cannot run cargo +nightly miri: {e}")),
    };
    let stdout = String::from_utf8_lossy(&res.stdout).to_string();
    let stderr = String::from_utf8_lossy(&res.stderr).to_string();
    for l in stdout.lines() {
        if l.starts_with("miri-run ok") {
            out.ok_lines += 1;
            for kv in l.split_whitespace() {
                if let Some((k, v)) = kv.split_once('=') {
                    match k {
                        "client_threads" => out.threads += v.parse::<u64>().unwrap_or(0),
                        "operations" => out.operations += v.parse::<u64>().unwrap_or(0),
                        "block" => {
                            out.blocks.insert(v.parse().unwrap_or(0));
                        }
                        _ => {}
                    }
                }
            }
        }
    }
    out.miri_seeds = only_seed.map(|_| 1).unwrap_or(n_seeds);
    out.wall_s = t0.elapsed().as_secs_f64();
    if !res.status.success() {
        if stderr.contains("could not compile") || stderr.contains("error[E") {
            eprintln!("{}", stderr.lines().rev().take(30).collect::<Vec<_>>().into_iter().rev().collect::<Vec<_>>().join("\n"));
            harness_error("the harness does not build under Miri");
        }
        // which Miri seed failed, and how
        let failing: Option<u64> = stderr
            .lines()
            .chain(stdout.lines())
            .find_map(|l| l.to_ascii_lowercase().find("failing seed").map(|i| l[i..].chars().filter(|c| c.is_ascii_digit()).collect::<String>()))
            .and_then(|d| d.parse().ok())
            .or(only_seed);
        let (class, detail) = if let Some(l) = stdout.lines().find(|l| l.starts_with("MIRI-TIER-VIOLATION")) {
            let class = l.split_whitespace().find_map(|kv| kv.strip_prefix("class=")).unwrap_or("thread-result-mismatch").to_string();
            (format!("miri:{class}"), l.to_string())
        } else if stderr.contains("Data race detected") {
            ("miri:data-race".to_string(), stderr.lines().find(|l| l.contains("Data race detected")).unwrap_or("").trim().to_string())
        } else if stderr.contains("Undefined Behavior") {
            ("miri:undefined-behavior".to_string(), stderr.lines().find(|l| l.contains("Undefined Behavior")).unwrap_or("").trim().to_string())
        } else if stderr.contains("deadlock") {
            ("miri:deadlock".to_string(), "the program deadlocked".to_string())
        } else if stderr.contains("panicked at") {
            ("miri:panic".to_string(), stderr.lines().find(|l| l.contains("panicked at")).unwrap_or("").trim().to_string())
        } else {
            ("miri:abnormal-exit".to_string(), stderr.lines().rev().find(|l| !l.trim().is_empty()).unwrap_or("").to_string())
        };
        let path = replay_path("C08", seed, failing.unwrap_or(0), "-miri");
        let log = path.with_extension("log");
        let _ = std::fs::write(&log, format!("MIRIFLAGS={flags}\n--- stdout ---\n{stdout}\n--- stderr ---\n{stderr}"));
        let rf = ReplayFile {
            property: "C08".into(),
            engine: "histsim-miri".into(),
            verif_seed: seed,
            run: failing.unwrap_or(0),
            class: class.clone(),
            signature: "thread-tier".into(),
            detail: format!("{detail} (full Miri report: {})", log.display()),
            original_size: 0,
            minimised_size: 0,
            minimiser_executions: 0,
            plan: json!({"verif_seed": seed, "n_plans": n_plans, "reps": reps, "miri_many_seeds": n_seeds, "long_texts": long}),
            miri_seed: failing,
        };
        let _ = write_json(&path, &rf);
        out.violation = Some(ViolationRec {
            property: "C08".into(),
            run: failing.unwrap_or(0),
            class,
            signature: "thread-tier".into(),
            detail: rf.detail,
            replay: path.display().to_string(),
        });
    }
    out
}

fn plan_value(property: &str, seed: u64, run: u64) -> serde_json::Value {
    match property {
        "C05" | "C08" => serde_json::to_value(hist_engine::plan_for(property, seed, run, false)).unwrap(),
        "C07" => serde_json::to_value(c07::plan_for(seed, run, &c07::real_files())).unwrap(),
        "C17" => serde_json::to_value(c17::plan_for(seed, run, &c17::real_files())).unwrap(),
        "C20" => serde_json::to_value(procsim::plan_for(seed, run)).unwrap(),
        _ => json!(null),
    }
}

fn engine_of(property: &str) -> &'static str {
    match property {
        "C05" | "C08" => "histsim",
        "C07" => "iosim-c07",
        "C17" => "iosim-c17",
        _ => "procsim",
    }
}

fn main() {
    let args: Vec<String> = std::env::args().skip(1).collect();
    if args.is_empty() {
        harness_error("usage: vsim <check|worker|replay|exec-run> ...");
    }
    match args[0].as_str() {
        "check" => check_main(&args[1..]),
        "worker" => worker_main(&args[1..]),
        "replay" => replay_main(&args[1..]),
        "exec-run" => exec_run_main(&args[1..]),
        "exec-plan" => {
            // executes the plan of a replay-format file in this process: 0 pass, 1 violation, 2 harness error
            let b = std::fs::read(&args[1]).unwrap_or_else(|e| harness_error(&format!("cannot read plan file: {e}")));
            let rf: ReplayFile = serde_json::from_slice(&b).unwrap_or_else(|e| harness_error(&format!("bad plan file: {e}")));
            obs::install_quiet_hook();
            let r = match rf.engine.as_str() {
                "histsim" => {
                    // no property filter: any violation class counts as "does not die"
                    let plan: histsim::HistPlan = serde_json::from_value(rf.plan.clone()).unwrap_or_else(|e| harness_error(&e.to_string()));
                    match hist_engine::run_plan(&plan, None, false, None) {
                        hist_engine::PlanResult::Pass(_) => Ok(None),
                        hist_engine::PlanResult::Violation(v, _) => Ok(Some((v.class, v.detail, vec![]))),
                        hist_engine::PlanResult::HarnessError(e) => Err(e),
                    }
                }
                "iosim-c07" => c07::replay(&rf),
                "iosim-c17" => c17::replay(&rf),
                "procsim" => procsim::replay(&rf),
                _ => Err("unknown engine".into()),
            };
            std::process::exit(match r {
                Ok(None) => 0,
                Ok(Some(_)) => 1,
                Err(_) => 2,
            })
        }
        "miri-run" => miri_run_main(&args[1..]),
        "wf-check" => {
            // wf-check <seed> <start> <end> <step>: generator self-check of the C07 models
            let seed: u64 = args[1].parse().unwrap();
            let (a, b, st): (u64, u64, u64) = (args[2].parse().unwrap(), args[3].parse().unwrap(), args[4].parse().unwrap());
            let files = c07::real_files();
            let mut bad = 0;
            let mut run = a;
            while run < b {
                if let c07::ModelSrc::Gen(m) = &c07::plan_for(seed, run, &files).src {
                    if let Err(e) = m.well_formed() {
                        println!("run {run}: {e}");
                        bad += 1;
                    }
                }
                run += st;
            }
            println!("wf-check done, {bad} ill-formed");
            std::process::exit(if bad == 0 { 0 } else { 2 });
        }
        "show" => {
            let v = plan_value(&args[1], args[2].parse().unwrap(), args[3].parse().unwrap());
            println!("{}", serde_json::to_string_pretty(&v).unwrap());
        }
        _ => harness_error("unknown command"),
    }
}
