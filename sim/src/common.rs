//! Shared plumbing: tiers, per-worker summaries, replay files, known findings, evidence.

use std::collections::{BTreeMap, BTreeSet};
use std::path::{Path, PathBuf};

use serde::{Deserialize, Serialize};
use serde_json::{json, Value};

pub const DEFAULT_SEED: u64 = 20261003;
pub const FP_CAP: usize = 1_500_000;
/// flag in the progress word: the worker is minimising a violation of that run
pub const MINIMISING: u64 = 1 << 63;

pub fn verif_dir() -> PathBuf {
    PathBuf::from(std::env::var("VERIF_DIR").unwrap_or_else(|_| "/verif".into()))
}

pub fn repo_dir() -> PathBuf {
    PathBuf::from(std::env::var("VERIF_REPO").unwrap_or_else(|_| "/repo".into()))
}

#[derive(Clone, Copy, Debug, PartialEq, Eq, Serialize, Deserialize)]
pub enum Tier {
    Quick,
    Thorough,
    /// small batch used by the self-tests
    Tiny,
}

impl Tier {
    pub fn parse(s: &str) -> Option<Self> {
        match s {
            "quick" => Some(Tier::Quick),
            "thorough" => Some(Tier::Thorough),
            "tiny" => Some(Tier::Tiny),
            _ => None,
        }
    }
    pub fn name(&self) -> &'static str {
        match self {
            Tier::Quick | Tier::Tiny => "quick",
            Tier::Thorough => "thorough",
        }
    }
}

#[derive(Clone, Debug, Serialize, Deserialize, PartialEq, Eq)]
pub struct ViolationRec {
    pub property: String,
    pub run: u64,
    pub class: String,
    /// the specific failing input / site, used to key known findings
    pub signature: String,
    pub detail: String,
    pub replay: String,
}

#[derive(Default, Clone, Debug, Serialize, Deserialize)]
pub struct Summary {
    pub runs: u64,
    pub steps: u64,
    pub counters: BTreeMap<String, u64>,
    pub fingerprints: BTreeSet<u64>,
    pub fingerprints_capped: bool,
    pub states: BTreeSet<u64>,
    pub transitions: BTreeSet<u64>,
    pub digest_sum: u64,
    pub violations: Vec<ViolationRec>,
    pub samples: Vec<Value>,
    pub harness_errors: Vec<String>,
    pub notes: BTreeSet<String>,
    pub run_digests: Vec<(u64, u64)>,
    /// distinct case groups (key = hash of the model/file/stream) with the number of
    /// non-trivial cases each contributes; merged by key so duplicates are not counted twice
    #[serde(default)]
    pub weighted_distinct: BTreeMap<u64, u64>,
}

impl Summary {
    pub fn count(&mut self, k: &str, n: u64) {
        *self.counters.entry(k.to_string()).or_insert(0) += n;
    }
    pub fn fingerprint(&mut self, f: u64) {
        if self.fingerprints.len() < FP_CAP {
            self.fingerprints.insert(f);
        } else if !self.fingerprints.contains(&f) {
            self.fingerprints_capped = true;
        }
    }
    pub fn merge(&mut self, o: Summary) {
        self.runs += o.runs;
        self.steps += o.steps;
        for (k, v) in o.counters {
            *self.counters.entry(k).or_insert(0) += v;
        }
        self.fingerprints_capped |= o.fingerprints_capped;
        for f in o.fingerprints {
            if self.fingerprints.len() < FP_CAP * 16 {
                self.fingerprints.insert(f);
            } else {
                self.fingerprints_capped = true;
            }
        }
        self.states.extend(o.states);
        self.transitions.extend(o.transitions);
        self.digest_sum = self.digest_sum.wrapping_add(o.digest_sum);
        self.violations.extend(o.violations);
        if self.samples.len() < 6 {
            for s in o.samples {
                if self.samples.len() < 6 {
                    self.samples.push(s);
                }
            }
        }
        self.harness_errors.extend(o.harness_errors);
        self.notes.extend(o.notes);
        self.run_digests.extend(o.run_digests);
        for (k, v) in o.weighted_distinct {
            self.weighted_distinct.entry(k).or_insert(v);
        }
    }
}

#[derive(Clone, Debug, Serialize, Deserialize)]
pub struct ReplayFile {
    pub property: String,
    pub engine: String,
    pub verif_seed: u64,
    pub run: u64,
    pub class: String,
    pub signature: String,
    pub detail: String,
    pub original_size: usize,
    pub minimised_size: usize,
    pub minimiser_executions: usize,
    pub plan: Value,
    #[serde(default)]
    pub miri_seed: Option<u64>,
}

pub fn replay_path(property: &str, seed: u64, run: u64, suffix: &str) -> PathBuf {
    let d = if repo_dir() == std::path::Path::new("/repo") {
        verif_dir().join("replays")
    } else {
        PathBuf::from(std::env::var("VERIF_BUILD").unwrap_or_else(|_| "/tmp".into())).join("replays")
    };
    let _ = std::fs::create_dir_all(&d);
    d.join(format!("{property}-{seed}-{run}{suffix}.json"))
}

pub fn write_json(path: &Path, v: &impl Serialize) -> std::io::Result<()> {
    let tmp = path.with_extension("tmp");
    std::fs::write(&tmp, serde_json::to_vec_pretty(v).map_err(std::io::Error::other)?)?;
    std::fs::rename(&tmp, path)
}

#[derive(Clone, Debug, Default, Serialize, Deserialize)]
pub struct KnownFinding {
    pub property: String,
    pub class: String,
    pub signature: String,
    pub what: String,
}

#[derive(Clone, Debug, Default, Serialize, Deserialize)]
pub struct KnownFindings {
    #[serde(default)]
    pub findings: Vec<KnownFinding>,
    #[serde(default)]
    pub fixed: Vec<String>,
}

pub fn load_known() -> KnownFindings {
    let p = verif_dir().join("known_findings.json");
    match std::fs::read(&p) {
        Ok(b) => serde_json::from_slice(&b).unwrap_or_else(|e| {
            eprintln!("harness error: cannot parse {}: {e}", p.display());
            std::process::exit(2)
        }),
        Err(_) => KnownFindings::default(),
    }
}

impl KnownFindings {
    pub fn matches(&self, v: &ViolationRec) -> Option<&KnownFinding> {
        self.findings
            .iter()
            .find(|k| k.property == v.property && k.class == v.class && k.signature == v.signature)
    }
}

pub struct EvidenceInput<'a> {
    pub property: &'a str,
    pub tier: Tier,
    pub seed: u64,
    pub level: &'a str,
    pub rule: &'a str,
    pub wall_s: f64,
    pub summary: &'a Summary,
    pub violations: usize,
    pub known: usize,
    pub assumptions: Vec<String>,
    pub real: Vec<&'a str>,
    pub stubs: Vec<&'a str>,
    pub exhaustive: bool,
    /// what one 'evaluation' is: a run (history / process run) or an attempt inside a run
    pub evaluations_are_steps: bool,
    pub extra: Value,
}

pub fn write_evidence(e: EvidenceInput) {
    if std::env::var("VERIF_NO_EVIDENCE").is_ok() {
        return; // determinism self-test: must not overwrite the evidence of a real check
    }
    let s = e.summary;
    let distinct = s.fingerprints.len() as u64 + s.weighted_distinct.values().sum::<u64>();
    let per_hour = if e.wall_s > 0.0 { (s.runs as f64 / e.wall_s * 3600.0) as u64 } else { 0 };
    let mut coverage = json!({
        "evaluations": if e.evaluations_are_steps { s.steps } else { s.runs },
        "distinct_nontrivial": distinct,
        "distinct_nontrivial_is_lower_bound": s.fingerprints_capped,
        "rule": e.rule,
        "samples": s.samples,
        "exhaustive": e.exhaustive,
        "states": s.states.len(),
        "transitions": s.transitions.len(),
        "simulated_runs": s.runs,
        "simulated_runs_per_hour": per_hour,
        "seeds": format!("VERIF_SEED={} -> per-run seed = splitmix64(splitmix64(seed ^ engine_tag*K) ^ splitmix64(run)), runs 0..{}", e.seed, s.runs),
        "simulated_time": format!("{} logical steps (the system has no clock that influences results)", s.steps),
        "logical_steps": s.steps,
        "counters_faults_and_probes": s.counters,
        "run_digest_sum": format!("{:016x}", s.digest_sum),
        "components_real": e.real,
        "components_stubbed": e.stubs,
        "known_findings_matched": e.known,
        "distinct_case_groups": s.weighted_distinct.len(),
        "notes": s.notes,
    });
    if let (Value::Object(c), Value::Object(x)) = (&mut coverage, e.extra) {
        for (k, v) in x {
            c.insert(k, v);
        }
    }
    let ev = json!({
        "property_id": e.property,
        "tier": e.tier.name(),
        "seed": e.seed,
        "level": e.level,
        "coverage": coverage,
        "assumptions": e.assumptions,
        "wall_s": (e.wall_s * 1000.0).round() / 1000.0,
        "violations": e.violations,
    });
    // evidence under /verif/evidence describes /repo itself; runs against a scratch tree
    // (sensitivity runs with VERIF_REPO set) write theirs next to that tree's build output
    let d = if repo_dir() == std::path::Path::new("/repo") {
        verif_dir().join("evidence")
    } else {
        PathBuf::from(std::env::var("VERIF_BUILD").unwrap_or_else(|_| "/tmp".into())).join("evidence")
    };
    let _ = std::fs::create_dir_all(&d);
    if let Err(err) = write_json(&d.join(format!("{}.json", e.property)), &ev) {
        eprintln!("harness error: cannot write evidence: {err}");
        std::process::exit(2);
    }
}

thread_local! {
    static MIN_DEADLINE: std::cell::Cell<Option<std::time::Instant>> = const { std::cell::Cell::new(None) };
}

/// Starts the wall-clock budget of one minimisation (checked by `ddmin`; soak plans with 10^5
/// operations would otherwise be minimised for hours).
pub fn start_minimisation(seconds: u64) {
    MIN_DEADLINE.with(|d| d.set(Some(std::time::Instant::now() + std::time::Duration::from_secs(seconds))));
}

pub fn minimisation_expired() -> bool {
    MIN_DEADLINE.with(|d| d.get().map(|t| std::time::Instant::now() > t).unwrap_or(false))
}

/// Classic ddmin over a vector; `test` returns true when the failure persists.
pub fn ddmin<T: Clone>(mut items: Vec<T>, budget: &mut usize, mut test: impl FnMut(&[T]) -> bool) -> Vec<T> {
    let mut n = 2usize;
    while items.len() >= 2 && *budget > 0 && !minimisation_expired() {
        let chunk = items.len().div_ceil(n);
        let mut reduced = false;
        let mut start = 0;
        while start < items.len() && *budget > 0 && !minimisation_expired() {
            let end = (start + chunk).min(items.len());
            let mut cand = items[..start].to_vec();
            cand.extend_from_slice(&items[end..]);
            *budget -= 1;
            if !cand.is_empty() && test(&cand) {
                items = cand;
                n = n.saturating_sub(1).max(2);
                reduced = true;
                break;
            }
            start = end;
        }
        if !reduced {
            if n >= items.len() {
                break;
            }
            n = (n * 2).min(items.len());
        }
    }
    if items.len() == 1 && *budget > 0 && !minimisation_expired() {
        *budget -= 1;
        if test(&[]) {
            items.clear();
        }
    }
    items
}

/// Tries to shorten a string (drop halves, then single characters) while `test` holds.
pub fn shrink_string(s: &str, budget: &mut usize, mut test: impl FnMut(&str) -> bool) -> String {
    let cs: Vec<char> = s.chars().collect();
    let out = ddmin(cs, budget, |c| {
        let t: String = c.iter().collect();
        test(&t)
    });
    out.into_iter().collect()
}
