//! `procsim` (C20): the real `predict` / `evaluate` binaries, one OS process per run, with the
//! behaviour of read(2)/write(2) decided by a seeded LD_PRELOAD interposer. stdout must equal,
//! byte for byte, a reference computed in-process from fresh sentences.

use std::io::{BufRead, Write};
use std::path::{Path, PathBuf};
use std::process::{Command, Stdio};
use std::time::{Duration, Instant};

use serde::{Deserialize, Serialize};
use serde_json::json;
use vaporetto::{CharacterBoundary, CharacterType, Model, Predictor, Sentence};
use vaporetto_rules::sentence_filters::{ConcatGraphemeClustersFilter, KyteaWsConstFilter};
use vaporetto_rules::string_filters::KyteaFullwidthFilter;
use vaporetto_rules::{SentenceFilter, StringFilter};

use crate::common::*;
use crate::gen;
use crate::mmodel::{gen_model, MModel, ModelKnobs};
use crate::obs::{guarded, last_panic};
use crate::rng::{run_seed, Fnv, Rng};

pub const TAG: u64 = 0xC20;

#[derive(Clone, Copy, Debug, PartialEq, Eq, Serialize, Deserialize)]
pub enum Tool {
    Predict,
    Evaluate,
}

#[derive(Clone, Debug, PartialEq, Eq, Serialize, Deserialize)]
pub struct ProcPlan {
    pub tool: Tool,
    pub model: MModel,
    pub no_norm: bool,
    pub predict_tags: bool,
    pub scores: bool,
    pub tag_scores: bool,
    pub wsconst: Vec<char>,
    pub metric_word: bool,
    pub lines: Vec<String>,
    pub final_newline: bool,
    /// None = unperturbed run; Some(seed) = run under the interposer
    pub io_seed: Option<u64>,
    /// additionally run the other normalisation mode and demand identical stdout
    /// (only meaningful when every line is a fixed point of the normaliser)
    pub meta: bool,
}

impl ProcPlan {
    pub fn stdin_bytes(&self) -> Vec<u8> {
        let mut s = self.lines.join("\n");
        if self.final_newline && !self.lines.is_empty() {
            s.push('\n');
        }
        s.into_bytes()
    }
    pub fn flags(&self, no_norm: bool) -> Vec<String> {
        let mut a = vec![];
        if no_norm {
            a.push("--no-norm".to_string());
        }
        if self.predict_tags {
            a.push("--predict-tags".to_string());
        }
        if self.tool == Tool::Predict {
            if self.scores {
                a.push("--scores".to_string());
            }
            if self.tag_scores {
                a.push("--tag-scores".to_string());
            }
        } else {
            a.push("--metric".to_string());
            a.push(if self.metric_word { "word" } else { "char" }.to_string());
        }
        for w in &self.wsconst {
            a.push("--wsconst".to_string());
            a.push(w.to_string());
        }
        a
    }
    pub fn signature(&self) -> String {
        format!("{:?} {}", self.tool, self.flags(self.no_norm).join(" "))
    }
}

const FIXED_POINT: &[char] = &['あ', 'い', 'の', 'ア', 'イ', '漢', '字', 'Ａ', '１', '。', 'ー', '々', '、', '𠮷', '👏', '\u{1f3fd}', '\u{200d}', ' ', '\\', '|'];

fn gen_line(rng: &mut Rng, fixed_point: bool) -> String {
    let kind = rng.below(20);
    let clean = |s: String| -> String { s.chars().filter(|&c| c != '\n').collect() };
    if fixed_point {
        return match kind {
            0 | 1 => String::new(),
            _ => {
                let n = gen::gen_len(rng);
                (0..n).map(|_| *rng.pick(FIXED_POINT)).collect()
            }
        };
    }
    match kind {
        0 | 1 => String::new(),
        2 => {
            let mut cs: Vec<char> = clean(gen::gen_text(rng)).chars().collect();
            let p = rng.below(cs.len() + 1);
            cs.insert(p, '\0');
            cs.into_iter().collect()
        }
        3 => {
            let mut s = clean(gen::gen_text(rng));
            s.push('\r');
            s
        }
        4 => "ｱｲ-./｢ab12()".chars().filter(|_| rng.chance(2, 3)).collect(),
        6 => {
            // katakana words written with look-alike dashes
            let n = rng.range(2, 8);
            (0..n).map(|_| if rng.chance(1, 3) { *rng.pick(gen::DASHES) } else { *rng.pick(&['ス', 'パ', 'コ', 'ヒ', 'ア', 'イ', '漢', '。']) }).collect()
        }
        5 => {
            if rng.chance(1, 6) {
                // longer than the 8 KiB stdin buffer of the tool
                let n = rng.range(2800, 3200);
                (0..n).map(|_| *rng.pick(gen::CORE)).collect()
            } else {
                let n = rng.range(60, 200);
                (0..n).map(|_| gen::gen_char(rng)).filter(|&c| c != '\n').collect()
            }
        }
        _ => clean(gen::gen_text(rng)),
    }
}

pub fn plan_for(seed: u64, run: u64) -> ProcPlan {
    let mut rng = Rng::new(run_seed(seed, TAG, run));
    let tool = if rng.chance(4, 5) { Tool::Predict } else { Tool::Evaluate };
    let model = if !crate::mmodel::real_models().is_empty() && rng.chance(1, 8) {
        rng.pick(crate::mmodel::real_models()).clone()
    } else {
        gen_model(&mut rng, &ModelKnobs { max_window: 3, max_entries: 8, ..ModelKnobs::default() })
    };
    let meta = tool == Tool::Predict && rng.chance(3, 10);
    // usually a handful of lines; sometimes enough to cross 64 / 256 records
    let giant_line = tool == Tool::Predict && run % 4_000 == 3_998;
    let soak = run % 2_000 == 1_999;
    let n_lines = if soak {
        // long-running process: past 2^16 records through one pair of sentence objects
        rng.range(66_000, 70_000)
    } else {
        match rng.below(40) {
        0 => rng.range(60, 80),
        1 => rng.range(250, 300),
        _ => rng.range(0, 12),
        }
    };
    let lines: Vec<String> = match tool {
        Tool::Predict => {
            // a fifth of the lines are related to the line before: the same line again, its
            // image under the normaliser, a width variant, or one character changed -- carried
            // state in the tool's line loop shows on such neighbours, not on independent lines
            let mut v: Vec<String> = vec![];
            for _ in 0..n_lines {
                let prev = v.last().cloned().filter(|p: &String| !p.is_empty() && p.chars().count() < 400);
                let l = match prev {
                    Some(p) if rng.chance(1, 5) => match rng.below(4) {
                        0 => p,
                        1 => KyteaFullwidthFilter.filter(&p),
                        2 => p.chars().map(|c| match c { 'ａ' => 'a', 'ｂ' => 'b', '１' => '1', '２' => '2', 'Ａ' => 'A', '。' if rng.chance(1, 2) => '.', c => c }).collect(),
                        _ => {
                            let mut cs: Vec<char> = p.chars().collect();
                            let i = rng.below(cs.len());
                            cs[i] = if meta { *rng.pick(FIXED_POINT) } else { gen::gen_char(&mut rng) };
                            cs.into_iter().filter(|&c| c != '\n').collect()
                        }
                    },
                    _ if soak => {
                        let n = rng.range(0, 5);
                        (0..n).map(|_| *rng.pick(gen::CORE)).collect()
                    }
                    _ => gen_line(&mut rng, meta),
                };
                v.push(l);
            }
            v
        }
        Tool::Evaluate => (0..n_lines)
            .map(|_| {
                if rng.chance(1, 8) {
                    String::new()
                } else {
                    let a = gen::gen_annotated(&mut rng, false);
                    // one record per line: no line breaks inside surfaces or tags
                    gen::render_tokenized(&a).replace(['\n', '\r'], "あ")
                }
            })
            .collect(),
    };
    let mut lines = lines;
    if giant_line {
        // one line of more than 16 MiB (a document per line, or CR-only line endings)
        let n = rng.range(5_700_000, 6_000_000);
        let big: String = (0..n).map(|i| if i % 97 == 0 { 'a' } else { *rng.pick(&['あ', 'い', '漢', '字', 'ア']) }).collect();
        lines.truncate(3);
        let at = rng.below(lines.len() + 1);
        lines.insert(at, big);
    }
    let mut wsconst = vec![];
    if rng.chance(1, 2) {
        for _ in 0..rng.range(1, 3) {
            wsconst.push(*rng.pick(&['D', 'R', 'H', 'T', 'K', 'O', 'G']));
        }
    }
    ProcPlan {
        tool,
        model,
        no_norm: rng.chance(1, 2),
        predict_tags: rng.chance(1, 2),
        scores: rng.chance(1, 2),
        tag_scores: rng.chance(1, 3),
        wsconst,
        metric_word: rng.chance(1, 2),
        lines,
        final_newline: rng.chance(4, 5),
        io_seed: if run % 3 == 0 { None } else { Some(rng.next_u64() >> 1) },
        meta,
    }
}

fn ctype(c: char) -> Option<CharacterType> {
    Some(match c {
        'D' => CharacterType::Digit,
        'R' => CharacterType::Roman,
        'H' => CharacterType::Hiragana,
        'T' => CharacterType::Katakana,
        'K' => CharacterType::Kanji,
        'O' => CharacterType::Other,
        _ => return None,
    })
}

fn filters(ws: &[char]) -> Vec<Box<dyn SentenceFilter>> {
    ws.iter()
        .map(|&c| -> Box<dyn SentenceFilter> {
            match ctype(c) {
                Some(t) => Box::new(KyteaWsConstFilter::new(t)),
                None => Box::new(ConcatGraphemeClustersFilter),
            }
        })
        .collect()
}

fn build_predictor(plan: &ProcPlan) -> Result<Predictor, String> {
    let bytes = plan.model.to_bytes();
    let (m, _) = Model::read_slice(&bytes).map_err(|e| e.to_string())?;
    let mut p = Predictor::new(m, plan.predict_tags).map_err(|e| e.to_string())?;
    if plan.tool == Tool::Predict && plan.tag_scores {
        p.store_tag_scores(true);
    }
    Ok(p)
}

/// The lines exactly as `BufRead::lines` yields them.
pub fn input_lines(stdin: &[u8]) -> Vec<String> {
    std::io::Cursor::new(stdin).lines().map(|l| l.expect("generated stdin is UTF-8")).collect()
}

#[derive(Clone, Debug, Default)]
pub struct Record {
    pub line: String,
    pub accepted: bool,
    pub token_line: String,
    pub score_block: String,
    pub tag_block: String,
}

#[derive(Clone, Debug)]
pub enum Expected {
    /// exit status 0 and exactly these records
    Output(Vec<Record>),
    /// `--tag-scores` without `--predict-tags`: the statement does not say whether the tool must
    /// accept this combination; either the defined output or a clean usage error is accepted
    OutputOrUsageError(Vec<Record>),
}

pub fn expected_predict(plan: &ProcPlan, no_norm: bool) -> Result<Expected, String> {
    let p = build_predictor(plan)?;
    let fs = filters(&plan.wsconst);
    let mut recs = vec![];
    for line in input_lines(&plan.stdin_bytes()) {
        let t = if no_norm { line.clone() } else { KyteaFullwidthFilter.filter(&line) };
        let mut rec = Record { line: line.clone(), ..Default::default() };
        if let Ok(mut s) = Sentence::from_raw(t) {
            rec.accepted = true;
            p.predict(&mut s);
            for f in &fs {
                f.filter(&mut s);
            }
            if plan.predict_tags {
                s.fill_tags();
            }
            let mut o = Sentence::from_raw(line.clone()).map_err(|e| format!("reference: {e}"))?;
            o.reset_tags(s.n_tags());
            o.boundaries_mut().copy_from_slice(s.boundaries());
            o.tags_mut().clone_from_slice(s.tags());
            o.write_tokenized_text(&mut rec.token_line);
            if plan.scores {
                let mut it = s.as_raw_text().chars();
                let mut prev = it.next().unwrap();
                for (i, (c, sc)) in it.zip(s.boundary_scores()).enumerate() {
                    rec.score_block.push_str(&format!("{i}:{prev}{c} {sc}\n"));
                    prev = c;
                }
                rec.score_block.push('\n');
            }
            if plan.tag_scores {
                for tok in s.iter_tokens() {
                    rec.tag_block.push_str(tok.surface());
                    if plan.predict_tags {
                        for cands in tok.tag_candidates() {
                            rec.tag_block.push('\t');
                            for (i, (tag, sc)) in cands.iter().enumerate() {
                                if i != 0 {
                                    rec.tag_block.push(',');
                                }
                                rec.tag_block.push_str(&format!("{tag}:{sc}"));
                            }
                        }
                    }
                    rec.tag_block.push('\n');
                }
                rec.tag_block.push('\n');
            }
        }
        recs.push(rec);
    }
    if plan.tag_scores && !plan.predict_tags {
        Ok(Expected::OutputOrUsageError(recs))
    } else {
        Ok(Expected::Output(recs))
    }
}

pub fn render(recs: &[Record]) -> Vec<u8> {
    let mut out = String::new();
    for r in recs {
        out.push_str(&r.token_line);
        out.push('\n');
        out.push_str(&r.score_block);
        out.push_str(&r.tag_block);
    }
    out.into_bytes()
}

pub fn expected_evaluate(plan: &ProcPlan) -> Result<Vec<u8>, String> {
    let p = build_predictor(plan)?;
    let fs = filters(&plan.wsconst);
    let mut results = vec![];
    for line in input_lines(&plan.stdin_bytes()) {
        if line.is_empty() {
            continue;
        }
        let r = Sentence::from_tokenized(&line).map_err(|e| format!("reference: generated line rejected: {e}"))?;
        let ref_b: Vec<CharacterBoundary> = r.boundaries().to_vec();
        let n = r.n_tags();
        let ref_t: Vec<Vec<Option<String>>> =
            (0..=ref_b.len()).map(|i| r.tags()[i * n..(i + 1) * n].iter().map(|t| t.as_ref().map(|c| c.to_string())).collect()).collect();
        // fresh sentence for the system side
        let mut s = if plan.no_norm {
            Sentence::from_tokenized(&line).map_err(|e| e.to_string())?
        } else {
            Sentence::from_raw(KyteaFullwidthFilter.filter(r.as_raw_text())).map_err(|e| e.to_string())?
        };
        p.predict(&mut s);
        for f in &fs {
            f.filter(&mut s);
        }
        if plan.predict_tags {
            s.fill_tags();
        }
        let sys_b: Vec<CharacterBoundary> = s.boundaries().to_vec();
        let n = s.n_tags();
        let sys_t: Vec<Vec<Option<String>>> =
            (0..=sys_b.len()).map(|i| s.tags()[i * n..(i + 1) * n].iter().map(|t| t.as_ref().map(|c| c.to_string())).collect()).collect();
        results.push((ref_b, ref_t, sys_b, sys_t));
    }
    let mut out = String::new();
    if !plan.metric_word {
        let (mut tp, mut tn, mut fp, mut fneg) = (0i32, 0i32, 0i32, 0i32);
        for (rb, _, hb, _) in &results {
            for (r, h) in rb.iter().zip(hb) {
                if r == h {
                    if *h == CharacterBoundary::WordBoundary {
                        tp += 1;
                    } else {
                        tn += 1;
                    }
                } else if *h == CharacterBoundary::WordBoundary {
                    fp += 1;
                } else {
                    fneg += 1;
                }
            }
        }
        let precision = f64::from(tp) / f64::from(tp + fp);
        let recall = f64::from(tp) / f64::from(tp + fneg);
        let f1 = 2. * precision * recall / (precision + recall);
        out.push_str(&format!("Precision: {precision}\nRecall: {recall}\nF1: {f1}\nTP: {tp}, TN: {tn}, FP: {fp}, FN: {fneg}\n"));
    } else {
        // Nagata's word matching: a system word is correct iff both of its ends are
        // reference boundaries, no reference boundary lies inside it, and its tags agree.
        let (mut n_sys, mut n_ref, mut n_cor) = (0i32, 0i32, 0i32);
        for (rb, rt, sb, stg) in &results {
            let len = rb.len() + 1;
            let is_b = |b: &Vec<CharacterBoundary>, i: usize| b[i] == CharacterBoundary::WordBoundary;
            n_sys += 1 + (0..len - 1).filter(|&i| is_b(sb, i)).count() as i32;
            n_ref += 1 + (0..len - 1).filter(|&i| is_b(rb, i)).count() as i32;
            let mut start = 0usize;
            for end in 1..=len {
                if end == len || is_b(sb, end - 1) {
                    let left_ok = start == 0 || is_b(rb, start - 1);
                    let right_ok = end == len || is_b(rb, end - 1);
                    let inner_ok = (start..end - 1).all(|i| !is_b(rb, i));
                    if left_ok && right_ok && inner_ok && rt[end - 1] == stg[end - 1] {
                        n_cor += 1;
                    }
                    start = end;
                }
            }
        }
        let precision = f64::from(n_cor) / f64::from(n_sys);
        let recall = f64::from(n_cor) / f64::from(n_ref);
        let f1 = 2. * precision * recall / (precision + recall);
        out.push_str(&format!("Precision: {precision}\nRecall: {recall}\nF1: {f1}\n"));
    }
    Ok(out.into_bytes())
}

// ---------------------------------------------------------------------------------------

pub struct Env {
    pub predict: PathBuf,
    pub evaluate: PathBuf,
    pub shim: PathBuf,
    pub dir: PathBuf,
}

impl Env {
    pub fn from_env() -> Result<Self, String> {
        let g = |k: &str| std::env::var(k).map(PathBuf::from).map_err(|_| format!("{k} is not set (run through ./check)"));
        let scratch = std::env::var("VERIF_SCRATCH").map(PathBuf::from).unwrap_or_else(|_| verif_dir().join(".build/work/manual"));
        let dir = scratch.join(format!("p{}", std::process::id()));
        std::fs::create_dir_all(&dir).map_err(|e| e.to_string())?;
        let e = Self { predict: g("VERIF_PREDICT")?, evaluate: g("VERIF_EVALUATE")?, shim: g("VERIF_SHIM")?, dir };
        for p in [&e.predict, &e.evaluate, &e.shim] {
            if !p.exists() {
                return Err(format!("{} does not exist", p.display()));
            }
        }
        Ok(e)
    }
}

#[derive(Clone, Debug, Default)]
pub struct IoTrace {
    pub calls: u64,
    pub short_reads: u64,
    pub short_writes: u64,
    pub eintr_reads: u64,
    pub eintr_writes: u64,
    pub hash: u64,
    pub stdin_sizes: Vec<usize>,
}

fn parse_trace(p: &Path) -> IoTrace {
    let mut t = IoTrace::default();
    let Ok(s) = std::fs::read_to_string(p) else { return t };
    let mut lines = s.lines();
    if let Some(first) = lines.next() {
        for kv in first.split_whitespace() {
            if let Some((k, v)) = kv.split_once('=') {
                match k {
                    "calls" => t.calls = v.parse().unwrap_or(0),
                    "short_reads" => t.short_reads = v.parse().unwrap_or(0),
                    "short_writes" => t.short_writes = v.parse().unwrap_or(0),
                    "eintr_reads" => t.eintr_reads = v.parse().unwrap_or(0),
                    "eintr_writes" => t.eintr_writes = v.parse().unwrap_or(0),
                    "hash" => t.hash = u64::from_str_radix(v, 16).unwrap_or(0),
                    _ => {}
                }
            }
        }
    }
    t.stdin_sizes = lines.filter_map(|l| l.parse().ok()).collect();
    t
}

pub struct ToolRun {
    pub stdout: Vec<u8>,
    pub stderr: String,
    pub code: Option<i32>,
    pub signal: Option<i32>,
    pub timed_out: bool,
    pub trace: IoTrace,
}

pub fn run_tool(env: &Env, plan: &ProcPlan, no_norm: bool, io_seed: Option<u64>) -> Result<ToolRun, String> {
    use std::os::unix::process::ExitStatusExt;
    let model_path = env.dir.join("model.zst");
    #[cfg(feature = "ffi")]
    {
        let z = zstd::encode_all(&plan.model.to_bytes()[..], 3).map_err(|e| e.to_string())?;
        std::fs::write(&model_path, z).map_err(|e| e.to_string())?;
    }
    #[cfg(not(feature = "ffi"))]
    return Err("procsim needs the ffi feature (zstd)".into());
    let stdin_path = env.dir.join("stdin.txt");
    let stdout_path = env.dir.join("stdout.txt");
    let stderr_path = env.dir.join("stderr.txt");
    let trace_path = env.dir.join("trace.txt");
    let _ = std::fs::remove_file(&trace_path);
    std::fs::write(&stdin_path, plan.stdin_bytes()).map_err(|e| e.to_string())?;
    let exe = if plan.tool == Tool::Predict { &env.predict } else { &env.evaluate };
    let mut cmd = Command::new(exe);
    cmd.arg("--model").arg(&model_path).args(plan.flags(no_norm));
    cmd.stdin(Stdio::from(std::fs::File::open(&stdin_path).map_err(|e| e.to_string())?));
    cmd.stdout(Stdio::from(std::fs::File::create(&stdout_path).map_err(|e| e.to_string())?));
    cmd.stderr(Stdio::from(std::fs::File::create(&stderr_path).map_err(|e| e.to_string())?));
    cmd.env_remove("LD_PRELOAD").env("RUST_BACKTRACE", "0");
    if let Some(s) = io_seed {
        cmd.env("LD_PRELOAD", &env.shim).env("VERIF_IO_SEED", s.to_string()).env("VERIF_IO_TRACE", &trace_path);
    }
    let mut child = cmd.spawn().map_err(|e| format!("cannot start {}: {e}", exe.display()))?;
    let t0 = Instant::now();
    let mut timed_out = false;
    let status = loop {
        match child.try_wait().map_err(|e| e.to_string())? {
            Some(s) => break s,
            None => {
                if t0.elapsed() > Duration::from_secs(20) {
                    let _ = child.kill();
                    timed_out = true;
                    break child.wait().map_err(|e| e.to_string())?;
                }
                std::thread::sleep(Duration::from_micros(300));
            }
        }
    };
    Ok(ToolRun {
        stdout: std::fs::read(&stdout_path).unwrap_or_default(),
        stderr: String::from_utf8_lossy(&std::fs::read(&stderr_path).unwrap_or_default()).to_string(),
        code: status.code(),
        signal: status.signal(),
        timed_out,
        trace: if io_seed.is_some() { parse_trace(&trace_path) } else { IoTrace::default() },
    })
}

#[derive(Clone, Debug)]
pub struct ProcViolation {
    pub class: String,
    pub signature: String,
    pub detail: String,
}

#[derive(Default, Clone, Debug)]
pub struct ProcStats {
    pub process_runs: u64,
    pub lines: u64,
    pub trace: IoTrace,
    pub probes: Vec<(&'static str, u64)>,
    pub fingerprint: u64,
    pub nontrivial: bool,
    pub digest: u64,
}

fn unescape_surfaces(token_line: &str) -> String {
    // concatenation of the unescaped surfaces of a tokenized line (tags dropped)
    let mut out = String::new();
    let mut esc = false;
    let mut in_tag = false;
    for c in token_line.chars() {
        if esc {
            if !in_tag {
                out.push(c);
            }
            esc = false;
            continue;
        }
        match c {
            '\\' => esc = true,
            ' ' => in_tag = false,
            '/' => in_tag = true,
            _ => {
                if !in_tag {
                    out.push(c);
                }
            }
        }
    }
    out
}

fn classify_mismatch(recs: &[Record], got: &[u8]) -> String {
    // walks the expected records over the actual output to say which sub-claim broke
    let got = String::from_utf8_lossy(got).to_string();
    let mut rest: &str = &got;
    for (i, r) in recs.iter().enumerate() {
        let Some((line, after)) = rest.split_once('\n') else {
            return format!("record-count(line {i}: output ends after {i} of {} records)", recs.len());
        };
        if line != r.token_line {
            if !r.score_block.is_empty() && line.starts_with(&r.token_line) && line[r.token_line.len()..].starts_with("0:") {
                return format!("score-block(line {i}: glued to the token line)");
            }
            let concat = unescape_surfaces(line);
            let expect_concat = if r.accepted { r.line.clone() } else { String::new() };
            return if concat != expect_concat {
                format!("surface-concatenation(line {i})")
            } else {
                format!("boundaries-or-tags(line {i})")
            };
        }
        rest = after;
        if !rest.starts_with(&r.score_block) {
            return format!("score-block(line {i})");
        }
        rest = &rest[r.score_block.len()..];
        if !rest.starts_with(&r.tag_block) {
            return format!("tag-score-block(line {i})");
        }
        rest = &rest[r.tag_block.len()..];
    }
    if !rest.is_empty() {
        return format!("record-count(extra output after {} records)", recs.len());
    }
    "unknown".to_string()
}

fn strip_line_no(s: &str) -> String {
    // class strings must not depend on the line number (the minimiser removes lines)
    match s.find('(') {
        Some(i) => s[..i].to_string(),
        None => s.to_string(),
    }
}

pub fn execute(env: &Env, plan: &ProcPlan) -> Result<(Option<ProcViolation>, ProcStats), String> {
    let mut st = ProcStats::default();
    let mut probes: std::collections::BTreeMap<&'static str, u64> = Default::default();
    macro_rules! probe {
        ($n:expr) => {
            *probes.entry($n).or_insert(0) += 1
        };
    }
    if let Err(e) = plan.model.well_formed() {
        return Err(format!("generated model is not well-formed: {e}"));
    }
    let stdin = plan.stdin_bytes();
    let lines = input_lines(&stdin);
    st.lines = lines.len() as u64;
    let sig = plan.signature();
    let mut fp = Fnv::default();
    fp.str(&sig);
    let mut prev_tagged_ok = false;
    for (i, l) in lines.iter().enumerate() {
        let rejected = l.is_empty() || l.contains('\0');
        fp.u64(u64::from(rejected) | (l.chars().count().min(40) as u64) << 1);
        if rejected {
            st.nontrivial = true;
            if i == 0 && l.is_empty() {
                probe!("empty-first-line");
            }
            if prev_tagged_ok {
                probe!("rejected-line-after-tagged-line");
            }
        }
        prev_tagged_ok = !rejected && plan.predict_tags && plan.model.n_tags() > 0;
    }
    for (on, name_on, name_off) in [
        (plan.no_norm, "flag:--no-norm on", "flag:--no-norm off"),
        (plan.predict_tags, "flag:--predict-tags on", "flag:--predict-tags off"),
        (plan.scores && plan.tool == Tool::Predict, "flag:--scores on", "flag:--scores off"),
        (plan.tag_scores && plan.tool == Tool::Predict, "flag:--tag-scores on", "flag:--tag-scores off"),
        (!plan.wsconst.is_empty(), "flag:--wsconst on", "flag:--wsconst off"),
    ] {
        if on {
            probe!(name_on);
        } else {
            probe!(name_off);
        }
    }
    if plan.predict_tags && plan.model.n_tags() == 0 {
        probe!("--predict-tags with a model without tag slots");
    }
    if plan.tool == Tool::Evaluate {
        probe!("tool:evaluate");
    } else {
        probe!("tool:predict");
    }

    let mut violation: Option<ProcViolation> = None;
    let modes: Vec<bool> = if plan.meta && plan.tool == Tool::Predict { vec![plan.no_norm, !plan.no_norm] } else { vec![plan.no_norm] };
    let mut outputs = vec![];
    for (mi, &no_norm) in modes.iter().enumerate() {
        let run = run_tool(env, plan, no_norm, plan.io_seed)?;
        st.process_runs += 1;
        if mi == 0 {
            st.trace = run.trace.clone();
        }
        let t = &run.trace;
        if plan.io_seed.is_some() {
            if t.short_reads + t.short_writes + t.eintr_reads + t.eintr_writes > 0 {
                st.nontrivial = true;
            }
            if t.eintr_reads > 0 {
                probe!("EINTR-on-read");
            }
            if t.short_writes > 0 {
                probe!("short-write-inside-output");
            }
            // where did the reads on stdin end?
            let mut off = 0usize;
            let (mut split_char, mut split_line) = (false, false);
            for &n in &t.stdin_sizes {
                off += n;
                if off > 0 && off < stdin.len() {
                    if (stdin[off] & 0xc0) == 0x80 {
                        split_char = true;
                    }
                    if stdin[off - 1] != b'\n' {
                        split_line = true;
                    }
                }
            }
            if split_char {
                probe!("read-splits-a-UTF-8-character");
            }
            if split_line {
                probe!("read-splits-a-line");
            }
        }
        let mode_name = if no_norm { "--no-norm" } else { "normalising" };
        let crashed = run.stderr.contains("panicked at") || run.signal.is_some();
        if run.timed_out {
            violation = Some(ProcViolation { class: "tool-hang".into(), signature: sig.clone(), detail: format!("{mode_name}: no exit within 20 s") });
            break;
        }
        if crashed {
            let first = run.stderr.lines().find(|l| l.contains("panicked at")).unwrap_or("").to_string();
            let msg = run.stderr.lines().skip_while(|l| !l.contains("panicked at")).nth(1).unwrap_or("").to_string();
            violation = Some(ProcViolation {
                class: "tool-crash".into(),
                signature: sig.clone(),
                detail: format!("{mode_name}: signal={:?} code={:?} {first} {msg}", run.signal, run.code),
            });
            break;
        }
        match plan.tool {
            Tool::Predict => {
                let exp = match guarded(|| expected_predict(plan, no_norm)) {
                    None => return Err(format!("reference pipeline panicked: {}", last_panic())),
                    Some(Err(e)) => return Err(e),
                    Some(Ok(e)) => e,
                };
                let (recs, usage_ok) = match &exp {
                    Expected::Output(r) => (r, false),
                    Expected::OutputOrUsageError(r) => (r, true),
                };
                let usage_error = run.code == Some(2) && run.stdout.is_empty() && run.stderr.contains("error:");
                if usage_ok && usage_error {
                    probe!("flag-combination-rejected-with-usage-error");
                } else if run.code != Some(0) {
                    violation = Some(ProcViolation {
                        class: "nonzero-exit".into(),
                        signature: sig.clone(),
                        detail: format!("{mode_name}: exit code {:?}; stderr: {}", run.code, run.stderr.lines().last().unwrap_or("")),
                    });
                    break;
                } else {
                    let want = render(recs);
                    if run.stdout != want {
                        let what = classify_mismatch(recs, &run.stdout);
                        violation = Some(ProcViolation {
                            class: format!("stdout-mismatch:{}", strip_line_no(&what)),
                            signature: sig.clone(),
                            detail: format!(
                                "{mode_name}: {what}; expected {:?} got {:?}",
                                String::from_utf8_lossy(&want).chars().take(300).collect::<String>(),
                                String::from_utf8_lossy(&run.stdout).chars().take(300).collect::<String>()
                            ),
                        });
                        break;
                    }
                }
            }
            Tool::Evaluate => {
                let exp = match guarded(|| expected_evaluate(plan)) {
                    None => return Err(format!("reference pipeline panicked: {}", last_panic())),
                    Some(Err(e)) => return Err(e),
                    Some(Ok(e)) => e,
                };
                if run.code != Some(0) {
                    violation = Some(ProcViolation {
                        class: "nonzero-exit".into(),
                        signature: sig.clone(),
                        detail: format!("exit code {:?}; stderr: {}", run.code, run.stderr.lines().last().unwrap_or("")),
                    });
                    break;
                }
                if run.stdout != exp {
                    violation = Some(ProcViolation {
                        class: "stdout-mismatch:evaluate".into(),
                        signature: sig.clone(),
                        detail: format!("expected {:?} got {:?}", String::from_utf8_lossy(&exp), String::from_utf8_lossy(&run.stdout)),
                    });
                    break;
                }
            }
        }
        outputs.push(run.stdout);
    }
    if violation.is_none() && outputs.len() == 2 {
        let fixed = lines.iter().all(|l| KyteaFullwidthFilter.filter(l) == *l);
        if fixed {
            probe!("metamorphic-mode-pair-compared");
            if outputs[0] != outputs[1] {
                violation = Some(ProcViolation {
                    class: "mode-divergence".into(),
                    signature: sig.clone(),
                    detail: "stdout with and without --no-norm differs on a stream of normaliser fixed points".into(),
                });
            }
        }
    }
    fp.u64(st.trace.hash);
    st.fingerprint = fp.finish();
    let mut dg = Fnv::default();
    dg.u64(st.fingerprint);
    dg.u64(st.trace.calls);
    for o in &outputs {
        dg.bytes(o);
    }
    st.digest = dg.finish();
    st.probes = probes.into_iter().collect();
    Ok((violation, st))
}

fn same_class(env: &Env, plan: &ProcPlan, class: &str) -> bool {
    matches!(execute(env, plan), Ok((Some(v), _)) if v.class == class)
}

pub fn minimise(env: &Env, plan: &ProcPlan, class: &str) -> (ProcPlan, usize) {
    let mut budget = 250usize;
    let start = budget;
    start_minimisation(90);
    let mut best = plan.clone();
    // simpler environment first
    for f in [
        |p: &mut ProcPlan| p.io_seed = None,
        |p: &mut ProcPlan| p.meta = false,
        |p: &mut ProcPlan| p.wsconst.clear(),
        |p: &mut ProcPlan| p.scores = false,
        |p: &mut ProcPlan| p.tag_scores = false,
        |p: &mut ProcPlan| p.predict_tags = false,
        |p: &mut ProcPlan| p.no_norm = false,
        |p: &mut ProcPlan| p.final_newline = true,
    ] {
        let mut cand = best.clone();
        f(&mut cand);
        if cand != best && budget > 0 {
            budget -= 1;
            if same_class(env, &cand, class) {
                best = cand;
            }
        }
    }
    let base = best.clone();
    let kept = ddmin(best.lines.clone(), &mut budget, |c| {
        let mut cand = base.clone();
        cand.lines = c.to_vec();
        same_class(env, &cand, class)
    });
    best.lines = kept;
    for i in 0..best.lines.len() {
        if minimisation_expired() {
            break;
        }
        let base = best.clone();
        let s = best.lines[i].clone();
        if s.chars().count() > 400 {
            continue;
        }
        let short = shrink_string(&s, &mut budget, |t| {
            let mut cand = base.clone();
            cand.lines[i] = t.to_string();
            same_class(env, &cand, class)
        });
        best.lines[i] = short;
    }
    macro_rules! shrink_field {
        ($field:ident) => {{
            let items = best.model.$field.clone();
            let base = best.clone();
            let kept = ddmin(items, &mut budget, |c| {
                let mut cand = base.clone();
                cand.model.$field = c.to_vec();
                same_class(env, &cand, class)
            });
            best.model.$field = kept;
        }};
    }
    shrink_field!(tag_models);
    shrink_field!(char_ngram_model);
    shrink_field!(type_ngram_model);
    shrink_field!(dict_model);
    (best, start - budget)
}

pub fn plan_summary(plan: &ProcPlan) -> serde_json::Value {
    json!({
        "tool": format!("{:?}", plan.tool),
        "argv": plan.flags(plan.no_norm),
        "stdin_lines": plan.lines.iter().map(|l| if l.chars().count() > 60 { format!("{}… ({} chars)", l.chars().take(60).collect::<String>(), l.chars().count()) } else { l.clone() }).collect::<Vec<_>>(),
        "final_newline": plan.final_newline,
        "io_seed": plan.io_seed,
        "metamorphic_pair": plan.meta,
        "model": {"char_window": plan.model.char_window_size, "type_window": plan.model.type_window_size, "tag_models": plan.model.tag_models.len(), "tag_slots": plan.model.n_tags()},
    })
}

pub fn worker(seed: u64, start: u64, end: u64, progress: &mut dyn FnMut(u64), keep_digests: bool) -> Summary {
    let mut sum = Summary::default();
    let env = match Env::from_env() {
        Ok(e) => e,
        Err(e) => {
            sum.harness_errors.push(e);
            return sum;
        }
    };
    for run in start..end {
        progress(run);
        let plan = plan_for(seed, run);
        sum.runs += 1;
        if run < 4 {
            sum.samples.push(json!({"run": run, "plan": plan_summary(&plan)}));
        }
        match execute(&env, &plan) {
            Err(e) => {
                if sum.harness_errors.len() < 5 {
                    sum.harness_errors.push(format!("run {run}: {e}"));
                }
            }
            Ok((v, st)) => {
                sum.steps += st.lines;
                sum.count("process-runs", st.process_runs);
                sum.count(if plan.io_seed.is_some() { "runs:perturbed" } else { "runs:fault-free" }, 1);
                sum.count("fault:short-read", st.trace.short_reads);
                sum.count("fault:short-write", st.trace.short_writes);
                sum.count("fault:EINTR-read", st.trace.eintr_reads);
                sum.count("fault:EINTR-write", st.trace.eintr_writes);
                sum.count("intercepted-io-calls", st.trace.calls);
                sum.count("input-lines", st.lines);
                for (k, n) in &st.probes {
                    sum.count(&format!("probe:{k}"), *n);
                }
                if st.nontrivial {
                    sum.fingerprint(st.fingerprint);
                }
                sum.digest_sum = sum.digest_sum.wrapping_add(crate::rng::splitmix64(st.digest ^ crate::rng::splitmix64(run)));
                if keep_digests {
                    sum.run_digests.push((run, st.digest));
                }
                if let Some(v) = v {
                    if sum.violations.len() < 2 {
                        progress(run | MINIMISING);
                        let (min, execs) = minimise(&env, &plan, &v.class);
                        let v2 = match execute(&env, &min) {
                            Ok((Some(v2), _)) => v2,
                            _ => v.clone(),
                        };
                        let path = replay_path("C20", seed, run, "");
                        let rf = ReplayFile {
                            property: "C20".into(),
                            engine: "procsim".into(),
                            verif_seed: seed,
                            run,
                            class: v2.class.clone(),
                            signature: min.signature(),
                            detail: v2.detail.clone(),
                            original_size: plan.lines.len(),
                            minimised_size: min.lines.len(),
                            minimiser_executions: execs,
                            plan: serde_json::to_value(&min).unwrap(),
                            miri_seed: None,
                        };
                        let _ = write_json(&path, &rf);
                        sum.violations.push(ViolationRec {
                            property: "C20".into(),
                            run,
                            class: v2.class,
                            signature: min.signature(),
                            detail: v2.detail,
                            replay: path.display().to_string(),
                        });
                    } else {
                        sum.count("violations-beyond-first-2-per-worker-not-minimised", 1);
                        sum.violations.push(ViolationRec {
                            property: "C20".into(),
                            run,
                            class: v.class,
                            signature: v.signature,
                            detail: v.detail,
                            replay: String::new(),
                        });
                    }
                }
            }
        }
    }
    let _ = std::fs::remove_dir_all(&env.dir);
    let _ = std::io::stdout().flush();
    sum
}

pub fn replay(rf: &ReplayFile) -> Result<Option<(String, String, Vec<String>)>, String> {
    let plan: ProcPlan = serde_json::from_value(rf.plan.clone()).map_err(|e| e.to_string())?;
    let env = Env::from_env()?;
    let r = execute(&env, &plan)?;
    let _ = std::fs::remove_dir_all(&env.dir);
    let log = vec![
        format!("argv: {} --model <generated> {}", if plan.tool == Tool::Predict { "predict" } else { "evaluate" }, plan.flags(plan.no_norm).join(" ")),
        format!("stdin: {:?}", String::from_utf8_lossy(&plan.stdin_bytes()).chars().take(400).collect::<String>()),
        format!("interposer: seed={:?} calls={} short_reads={} short_writes={} eintr_reads={} eintr_writes={} trace_hash={:016x}", plan.io_seed, r.1.trace.calls, r.1.trace.short_reads, r.1.trace.short_writes, r.1.trace.eintr_reads, r.1.trace.eintr_writes, r.1.trace.hash),
    ];
    Ok(r.0.map(|v| (v.class, v.detail, log)))
}
