//! `histsim`: operation/fault histories on reused `Sentence` objects shared-predictor clients.
//!
//! Every client owns one *reused* sentence and one *shadow*. The shadow is rebuilt by the
//! matching constructor at every update (it has no history before the last update) and then
//! receives the same operations. After every step the public observations of both must agree.
//! Steps at updates/constructors decide C05, all later steps decide C08.

use std::borrow::Cow;
use std::collections::BTreeSet;

use serde::{Deserialize, Serialize};
use vaporetto::{CharacterBoundary, CharacterType, Model, Predictor, Sentence};
use vaporetto_rules::sentence_filters::{
    ConcatGraphemeClustersFilter, KyteaWsConstFilter, PatternMatchTagger, SplitLinebreaksFilter,
};
use vaporetto_rules::SentenceFilter;

use crate::gen;
use crate::mmodel::{gen_model, MModel, ModelKnobs};
use crate::obs::{guarded, last_panic, observe, SentObs, O};
use crate::rng::{Fnv, Rng};

#[derive(Clone, Debug, PartialEq, Eq, Serialize, Deserialize)]
pub enum FilterSpec {
    WsConst(u8),
    Grapheme,
    SplitLinebreaks,
    PatternTagger(Vec<(String, Vec<Option<String>>)>),
}

/// What a rendered, unmutated annotation must parse to (generator ground truth).
#[derive(Clone, Debug, PartialEq, Eq, Serialize, Deserialize)]
pub struct Expect {
    pub raw: String,
    pub labels: Vec<u8>,
    /// per character: tags attached to it
    pub tags: Vec<Vec<Option<String>>>,
}

#[derive(Clone, Debug, PartialEq, Eq, Serialize, Deserialize)]
pub enum Op {
    UpdateRaw { s: String, owned: bool },
    /// update_raw with the very same `&str` (same address) as the client's latest borrowed
    /// update_raw: pointer identity, not just equal content
    UpdateRawAgain,
    UpdateTokenized { s: String, expect: Option<Expect> },
    UpdatePartial { s: String, expect: Option<Expect> },
    NewRaw { s: String, owned: bool },
    NewTokenized { s: String },
    NewPartial { s: String },
    NewDefault,
    ResetTags(usize),
    Predict(usize),
    FillTags,
    Filter(FilterSpec),
    SetBoundary { pos: u16, b: u8 },
    SetTag { pos: u16, tag: Option<String> },
}

impl Op {
    pub fn kind(&self) -> &'static str {
        match self {
            Op::UpdateRaw { .. } => "update_raw",
            Op::UpdateRawAgain => "update_raw(same slice)",
            Op::UpdateTokenized { .. } => "update_tokenized",
            Op::UpdatePartial { .. } => "update_partial_annotation",
            Op::NewRaw { .. } => "from_raw",
            Op::NewTokenized { .. } => "from_tokenized",
            Op::NewPartial { .. } => "from_partial_annotation",
            Op::NewDefault => "default",
            Op::ResetTags(_) => "reset_tags",
            Op::Predict(_) => "predict",
            Op::FillTags => "fill_tags",
            Op::Filter(FilterSpec::WsConst(_)) => "filter_wsconst",
            Op::Filter(FilterSpec::Grapheme) => "filter_grapheme",
            Op::Filter(FilterSpec::SplitLinebreaks) => "filter_linebreaks",
            Op::Filter(FilterSpec::PatternTagger(_)) => "filter_tagger",
            Op::SetBoundary { .. } => "boundaries_mut",
            Op::SetTag { .. } => "tags_mut",
        }
    }
    pub fn kind_id(&self) -> u8 {
        match self {
            Op::UpdateRaw { .. } => 0,
            Op::UpdateRawAgain => 16,
            Op::UpdateTokenized { .. } => 1,
            Op::UpdatePartial { .. } => 2,
            Op::NewRaw { .. } => 3,
            Op::NewTokenized { .. } => 4,
            Op::NewPartial { .. } => 5,
            Op::NewDefault => 6,
            Op::ResetTags(_) => 7,
            Op::Predict(_) => 8,
            Op::FillTags => 9,
            Op::Filter(FilterSpec::WsConst(_)) => 10,
            Op::Filter(FilterSpec::Grapheme) => 11,
            Op::Filter(FilterSpec::SplitLinebreaks) => 12,
            Op::Filter(FilterSpec::PatternTagger(_)) => 13,
            Op::SetBoundary { .. } => 14,
            Op::SetTag { .. } => 15,
        }
    }
    pub fn is_update_or_ctor(&self) -> bool {
        self.kind_id() <= 6
    }
}

#[derive(Clone, Debug, PartialEq, Eq, Serialize, Deserialize)]
pub struct PredSpec {
    pub model: usize,
    pub predict_tags: bool,
    pub store_scores: bool,
    /// built, serialised and restored with `deserialize_from_slice_unchecked` (on its own,
    /// self-produced bytes, as the embedded-device example does)
    #[serde(default)]
    pub restored: bool,
}

#[derive(Clone, Debug, PartialEq, Eq, Serialize, Deserialize)]
pub struct HistPlan {
    pub models: Vec<MModel>,
    pub preds: Vec<PredSpec>,
    pub clients: Vec<Vec<Op>>,
    pub interleave: Vec<u8>,
}

impl HistPlan {
    pub fn n_ops(&self) -> usize {
        self.clients.iter().map(|c| c.len()).sum()
    }
}

#[derive(Clone, Copy, Debug, PartialEq, Eq)]
pub enum Focus {
    C05,
    C08,
}

#[derive(Clone, Copy, Debug)]
pub struct HistKnobs {
    pub focus: Focus,
    pub max_ops: usize,
    pub min_ops: usize,
    pub update_heavy: bool,
    pub long_thread_texts: bool,
    /// dedicated run: the history starts with a sentence of more than 2^20 bytes (or characters)
    pub mega: bool,
    /// thread tier: all raw texts of all clients come from a pool of two texts and all predicts
    /// go through predictor 0 (repeats within and across threads)
    pub text_pool: bool,
    pub max_clients: usize,
    pub min_clients: usize,
    pub model: ModelKnobs,
    pub max_text: usize,
}

impl HistKnobs {
    pub fn for_focus(focus: Focus) -> Self {
        Self { focus, max_ops: 24, min_ops: 1, update_heavy: false, long_thread_texts: false, mega: false, text_pool: false, max_clients: 4, min_clients: 1, model: ModelKnobs::default(), max_text: 1_200_000 }
    }
    pub fn miri() -> Self {
        Self {
            focus: Focus::C08,
            max_ops: 4,
            min_ops: 1,
            update_heavy: false,
            long_thread_texts: false,
            mega: false,
            text_pool: false,
            max_clients: 3,
            min_clients: 2,
            model: ModelKnobs { max_window: 2, max_type_window: 1, core_only: true, extreme_values: false, allow_big_windows: false, max_entries: 3, want_tags: None },
            max_text: 6,
        }
    }
}

fn clip(s: String, max_chars: usize) -> String {
    if s.chars().count() <= max_chars {
        s
    } else {
        s.chars().take(max_chars).collect()
    }
}

fn expect_tokenized(a: &gen::Annotated) -> Expect {
    let n = a.chars.len();
    let tags = (0..n)
        .map(|i| if i + 1 == n || a.labels[i] == 1 { a.tags[i].clone() } else { vec![] })
        .collect();
    Expect { raw: a.chars.iter().collect(), labels: a.labels.clone(), tags }
}

fn expect_partial(a: &gen::Annotated) -> Expect {
    Expect { raw: a.chars.iter().collect(), labels: a.labels.clone(), tags: a.tags.clone() }
}

/// Derives a text from one the client used before: the same text again, a prefix, a suffix, an
/// extension or a one-character change. History defects typically need *related* consecutive
/// inputs (same text under another annotation, same length, shared prefix), which independent
/// random texts almost never produce.
fn related_chars(rng: &mut Rng, recent: &[Vec<char>]) -> Vec<char> {
    let base = rng.pick(recent).clone();
    let mut v = match rng.below(8) {
        0..=2 => base,
        3 => base[..rng.range(1, base.len())].to_vec(),
        4 => base[rng.below(base.len())..].to_vec(),
        5 => {
            let mut b = base;
            for _ in 0..rng.range(1, 3) {
                b.push(gen::gen_char(rng));
            }
            b
        }
        6 => {
            let mut b = base;
            let i = rng.below(b.len());
            b[i] = gen::gen_char(rng);
            b
        }
        _ => {
            let mut b = base;
            b.reverse();
            b
        }
    };
    if v.is_empty() {
        v.push('あ');
    }
    v
}

fn gen_update(rng: &mut Rng, k: &HistKnobs, ctor: bool, recent: &mut Vec<Vec<char>>) -> Op {
    // the three formats, about 45 % of the annotated inputs being exact renderings with
    // generator ground truth attached; a quarter of the inputs are related to earlier ones
    let related = !recent.is_empty() && rng.chance(1, 4);
    let remember = |cs: Vec<char>, recent: &mut Vec<Vec<char>>| {
        if !cs.is_empty() && !cs.contains(&'\0') {
            if recent.len() >= 4 {
                recent.remove(0);
            }
            recent.push(cs);
        }
    };
    if k.update_heavy {
        // soak runs: mostly short, tagged, valid annotations (so that whatever happens at the
        // n-th successful update is visible in the tags), some raw texts in between
        let a = gen::gen_annotated_tagged(rng, k.max_text, false);
        return match rng.below(5) {
            0 => Op::UpdateRaw { s: a.chars.iter().collect(), owned: rng.chance(1, 2) },
            1 | 2 => Op::UpdateTokenized { s: gen::render_tokenized(&a), expect: Some(expect_tokenized(&a)) },
            _ => {
                let a = gen::gen_annotated_tagged(rng, k.max_text, true);
                Op::UpdatePartial { s: gen::render_partial(&a), expect: Some(expect_partial(&a)) }
            }
        };
    }
    match rng.below(3) {
        0 => {
            let s = if related { related_chars(rng, recent).into_iter().take(k.max_text).collect() } else { clip(gen::gen_raw_input(rng), k.max_text) };
            remember(s.chars().collect(), recent);
            let owned = rng.chance(1, 2);
            if ctor {
                Op::NewRaw { s, owned }
            } else {
                Op::UpdateRaw { s, owned }
            }
        }
        1 => {
            if related || (rng.chance(9, 20) && k.max_text >= 12) {
                let a = if related {
                    let mut cs = related_chars(rng, recent);
                    cs.truncate(k.max_text);
                    gen::gen_annotated_over(rng, cs, false)
                } else {
                    gen::gen_annotated(rng, false)
                };
                remember(a.chars.clone(), recent);
                let s = gen::render_tokenized(&a);
                if ctor {
                    Op::NewTokenized { s }
                } else {
                    Op::UpdateTokenized { s, expect: Some(expect_tokenized(&a)) }
                }
            } else {
                let s = clip(gen::gen_tokenized_input(rng), k.max_text * 3);
                if ctor {
                    Op::NewTokenized { s }
                } else {
                    Op::UpdateTokenized { s, expect: None }
                }
            }
        }
        _ => {
            if related || (rng.chance(9, 20) && k.max_text >= 12) {
                let a = if related {
                    let mut cs = related_chars(rng, recent);
                    cs.truncate(k.max_text);
                    gen::gen_annotated_over(rng, cs, true)
                } else {
                    gen::gen_annotated(rng, true)
                };
                remember(a.chars.clone(), recent);
                let s = gen::render_partial(&a);
                if ctor {
                    Op::NewPartial { s }
                } else {
                    Op::UpdatePartial { s, expect: Some(expect_partial(&a)) }
                }
            } else {
                let s = clip(gen::gen_partial_input(rng), k.max_text * 3);
                if ctor {
                    Op::NewPartial { s }
                } else {
                    Op::UpdatePartial { s, expect: None }
                }
            }
        }
    }
}

/// Texts of the thread tier: a tiny alphabet shared with the tag-dense models.
fn thread_text(rng: &mut Rng, n: usize) -> String {
    // 'é' is a two-byte character with a low code point (cheap under Miri): together with the
    // tag-dense models it gives tagged tokens of different byte lengths
    (0..n).map(|_| *rng.pick(&['a', 'b', 'é', 'a', 'b', '1', 'あ'])).collect()
}

fn gen_filter(rng: &mut Rng) -> FilterSpec {
    match rng.below(8) {
        0..=2 => FilterSpec::WsConst(rng.range(1, 6) as u8),
        3 | 4 => FilterSpec::Grapheme,
        5 => FilterSpec::SplitLinebreaks,
        _ => {
            let mut rules = vec![];
            for _ in 0..rng.range(1, 3) {
                let n = rng.range(1, 2);
                let key = gen::gen_pattern(rng, n);
                let tags = (0..rng.range(0, 3))
                    .map(|_| if rng.chance(1, 4) { None } else { Some(gen::gen_tag(rng)) })
                    .collect();
                if !rules.iter().any(|(k, _): &(String, _)| *k == key) {
                    rules.push((key, tags));
                }
            }
            FilterSpec::PatternTagger(rules)
        }
    }
}

pub fn gen_plan(rng: &mut Rng, k: &HistKnobs) -> HistPlan {
    let n_models = rng.range(1, 2);
    let mut models = vec![];
    for i in 0..n_models {
        // one run in eight works with one of the repository's real models (and, through the
        // text generator, with the real sentences they were trained on)
        if i == 0 && !k.model.core_only && !crate::mmodel::real_models().is_empty() && rng.chance(1, 8) {
            models.push(rng.pick(crate::mmodel::real_models()).clone());
            continue;
        }
        let mut mk = k.model;
        if i == 0 && mk.want_tags.is_none() && rng.chance(1, 2) {
            mk.want_tags = Some(true);
        }
        models.push(gen_model(rng, &mk));
    }
    let n_preds = rng.range(1, 3);
    let mut preds = vec![];
    for _ in 0..n_preds {
        let model = rng.below(models.len());
        // (thread tier: half of the predictors are non-tagging, i.e. use the cached type scorer)
        let predict_tags = if k.min_clients >= 2 { rng.chance(1, 2) } else { rng.chance(2, 3) };
        let store_scores = predict_tags && rng.chance(1, 2);
        let restored = k.min_clients < 2 && rng.chance(1, 6);
        preds.push(PredSpec { model, predict_tags, store_scores, restored });
    }
    let n_clients = match rng.below(10) {
        0..=5 => 1,
        6 | 7 => 2.min(k.max_clients),
        8 => 3.min(k.max_clients),
        _ => k.max_clients,
    }
    .max(k.min_clients);
    let mut clients = vec![];
    for _ in 0..n_clients {
        let n_ops = rng.range(k.min_ops, k.max_ops);
        let mut ops = vec![];
        let mut recent: Vec<Vec<char>> = vec![];
        // swarm: each client draws its own operation mix
        let w_update = if k.update_heavy { 400 } else if k.focus == Focus::C05 { rng.range(20, 60) } else { rng.range(8, 30) };
        // (a constructor replaces the object: soak histories, which are about ONE object, use none)
        let w_ctor = if k.update_heavy { 0 } else { rng.range(0, 6) };
        let w_reset = rng.range(0, 12);
        let w_predict = if k.focus == Focus::C05 { rng.range(2, 25) } else { rng.range(10, 40) };
        let w_fill = if k.mega { 40 } else { rng.range(0, 25) };
        let w_filter = rng.range(0, 15);
        let w_setb = rng.range(0, 8);
        let w_sett = rng.range(0, 8);
        if k.mega {
            // a sentence of 360 000-420 000 characters (> 2^20 bytes) or of 1.05-1.15 million
            // characters (> 2^20 characters), raw or tagged, predicted and tagged; the short
            // random history that follows decides what is observed afterwards
            let n = if rng.chance(1, 2) { rng.range(360_000, 420_000) } else { rng.range(1_050_000, 1_150_000) };
            let chars: Vec<char> = (0..n).map(|_| gen::gen_char(rng)).collect();
            if rng.chance(1, 3) {
                let a = gen::gen_annotated_over(rng, chars, false);
                ops.push(Op::UpdateTokenized { s: gen::render_tokenized(&a), expect: None });
            } else {
                ops.push(Op::UpdateRaw { s: chars.into_iter().collect(), owned: rng.chance(1, 2) });
            }
            ops.push(Op::Predict(rng.below(preds.len())));
            if rng.chance(2, 3) {
                ops.push(Op::FillTags);
            }
            if rng.chance(1, 2) {
                // the stale-state probe: an update (possibly a failing one) directly followed by
                // fill_tags, with no predict in between
                ops.push(gen_update(rng, k, false, &mut recent));
                ops.push(Op::FillTags);
            }
        }
        while ops.len() < n_ops {
            match rng.weighted(&[w_update, w_ctor, w_reset, w_predict, w_fill, w_filter, w_setb, w_sett]) {
                0 => {
                    if !k.update_heavy && rng.chance(1, 10) {
                        ops.push(Op::UpdateRawAgain)
                    } else {
                        ops.push(gen_update(rng, k, false, &mut recent))
                    }
                }
                1 => {
                    if rng.chance(1, 8) {
                        ops.push(Op::NewDefault)
                    } else {
                        ops.push(gen_update(rng, k, true, &mut recent))
                    }
                }
                2 => ops.push(Op::ResetTags(match rng.below(30) {
                    0 => *rng.pick(&[16usize, 300, 5000]),
                    _ => rng.range(0, 3),
                })),
                3 => {
                    let p = rng.below(preds.len());
                    ops.push(Op::Predict(p));
                    if k.focus == Focus::C08 && rng.chance(1, 2) {
                        ops.push(Op::FillTags);
                    }
                    if k.focus == Focus::C08 && preds.len() > 1 && rng.chance(1, 4) {
                        // predictor switch on the same text, without an update in between: what
                        // predictor A left in the sentence must not leak into B's results
                        let q = (p + 1 + rng.below(preds.len() - 1)) % preds.len();
                        ops.push(Op::Predict(q));
                        ops.push(Op::FillTags);
                    }
                }
                4 => ops.push(Op::FillTags),
                5 => ops.push(Op::Filter(gen_filter(rng))),
                6 => ops.push(Op::SetBoundary { pos: rng.below(65536) as u16, b: rng.below(3) as u8 }),
                _ => ops.push(Op::SetTag {
                    pos: rng.below(65536) as u16,
                    tag: if rng.chance(1, 4) { None } else { Some(gen::gen_tag(rng)) },
                }),
            }
            // now and then the same operation again (second, third, fourth time in a row)
            if rng.chance(1, 12) {
                if let Some(last) = ops.last().cloned() {
                    for _ in 0..rng.range(1, 3) {
                        ops.push(last.clone());
                    }
                }
            }
        }
        if k.min_clients >= 2 && k.long_thread_texts {
            // thread tier, long-text plan: inputs of 1024+ characters (a size class of its own
            // for anything that treats long inputs specially), predicted twice in a row and
            // swapped between the clients
            ops.clear();
            let n = rng.range(1024, 1100);
            let own = thread_text(rng, n);
            for _ in 0..2 {
                ops.push(Op::UpdateRaw { s: own.clone(), owned: false });
                ops.push(Op::Predict(0));
            }
        } else if k.min_clients >= 2 {
            // thread tier: several short predict segments on texts of different lengths, so that
            // concurrent predict / fill_tags calls on the shared predictors overlap often
            for _ in 0..2 {
                let n = rng.range(1, k.max_text);
                ops.push(Op::UpdateRaw { s: thread_text(rng, n), owned: rng.chance(1, 2) });
                ops.push(Op::Predict(rng.below(preds.len())));
                if rng.chance(1, 2) {
                    ops.push(Op::FillTags);
                }
            }
        }
        if k.focus == Focus::C08 && !k.long_thread_texts {
            // the statement's closing segment: update_raw(x); predict; [fill_tags]
            let last = if !recent.is_empty() && rng.chance(1, 3) { related_chars(rng, &recent).into_iter().collect() } else { clip(gen::gen_text(rng), k.max_text) };
            ops.push(Op::UpdateRaw { s: last, owned: rng.chance(1, 2) });
            ops.push(Op::Predict(rng.below(preds.len())));
            if rng.chance(2, 3) {
                ops.push(Op::FillTags);
            }
        }
        clients.push(ops);
    }
    if k.min_clients >= 2 && k.long_thread_texts {
        // every client also re-predicts the text of its neighbour
        let texts: Vec<String> = clients.iter().map(|c| match &c[0] { Op::UpdateRaw { s, .. } => s.clone(), _ => String::new() }).collect();
        let n = clients.len();
        for (i, c) in clients.iter_mut().enumerate() {
            c.push(Op::UpdateRaw { s: texts[(i + 1) % n].clone(), owned: false });
            c.push(Op::Predict(0));
        }
    } else if k.min_clients >= 2 && (k.text_pool || rng.chance(1, 2)) {
        // thread tier: same program shape on every client (different texts), so that threads
        // running in near lock-step contend for whatever the predictor might share
        let shape = clients[0].clone();
        // in half of these plans the clients even work on identical texts: in lock-step they then
        // touch the same (possibly not yet initialised) parts of a shared predictor at the same
        // moment, and every client must still get the serial result
        // ... for their FIRST text only: later segments get texts of their own again, because
        // other defects need concurrent calls on inputs of *different* length
        let identical = rng.chance(1, 2);
        let mut seen_first = false;
        for c in clients.iter_mut().skip(1) {
            seen_first = false;
            *c = shape
                .iter()
                .map(|op| match op {
                    Op::UpdateRaw { .. } if identical && !std::mem::replace(&mut seen_first, true) => op.clone(),
                    Op::UpdateRaw { owned, .. } => {
                        let n = rng.range(1, k.max_text);
                        Op::UpdateRaw { s: thread_text(rng, n), owned: *owned }
                    }
                    o => o.clone(),
                })
                .collect();
        }
    }
    if k.min_clients >= 2 && k.text_pool && !k.long_thread_texts {
        // thread tier, text-pool plan: the clients' raw texts all come from a pool of two texts of
        // different lengths and every predict goes through predictor 0. Anything a predictor
        // shares between callers *keyed on the input* (a memo, a cache of recent results) only
        // engages when texts repeat within and across threads, which independent random texts
        // never do; every client must still get the serial result.
        let (na, nb) = (rng.range(1, k.max_text), rng.range(1, k.max_text));
        let a = thread_text(rng, na);
        let mut b = thread_text(rng, nb);
        if b == a {
            b.push('b');
        }
        let pool = [a, b];
        for c in clients.iter_mut() {
            for op in c.iter_mut() {
                match op {
                    Op::UpdateRaw { s, .. } | Op::NewRaw { s, .. } => *s = pool[rng.below(2)].clone(),
                    Op::Predict(q) => *q = 0,
                    _ => {}
                }
            }
        }
    }
    let total: usize = clients.iter().map(|c: &Vec<Op>| c.len()).sum();
    let interleave = (0..total).map(|_| rng.below(n_clients) as u8).collect();
    HistPlan { models, preds, clients, interleave }
}

// ---------------------------------------------------------------------------------------

#[derive(Clone, Debug, PartialEq, Eq, Serialize, Deserialize)]
pub struct Violation {
    pub property: String,
    pub class: String,
    pub detail: String,
    pub client: usize,
    pub op_index: usize,
}

#[derive(Default, Clone, Debug)]
pub struct RunStats {
    pub steps: u64,
    pub failed_updates: u64,
    pub ok_updates: u64,
    pub fingerprint: u64,
    pub nontrivial: bool,
    pub digest: u64,
    pub states: Vec<u64>,
    pub transitions: Vec<u64>,
    pub probes: Vec<(&'static str, u64)>,
    pub err_msgs: BTreeSet<String>,
}

pub enum Built {
    Ok(Vec<Predictor>),
    HarnessError(String),
}

/// Builds the predictors of a plan from model *bytes* through the public API.
pub fn build_predictors(plan: &HistPlan) -> Built {
    let mut out = vec![];
    for (i, m) in plan.models.iter().enumerate() {
        if let Err(e) = m.well_formed() {
            return Built::HarnessError(format!("generated model {i} is not well-formed: {e}"));
        }
    }
    for p in &plan.preds {
        let bytes = plan.models[p.model].to_bytes();
        let r: Option<Result<Predictor, String>> = guarded(|| {
            // (what read_slice returns as remainder is C07's business, not this engine's)
            let (model, _rest) = Model::read_slice(&bytes).map_err(|e| e.to_string())?;
            let mut pr = Predictor::new(model, p.predict_tags).map_err(|e| e.to_string())?;
            if p.restored {
                let bytes = pr.serialize_to_vec().map_err(|e| e.to_string())?;
                // SAFETY: the bytes were produced by serialize_to_vec() just now
                let (restored, rest) = unsafe { Predictor::deserialize_from_slice_unchecked(&bytes) }.map_err(|e| e.to_string())?;
                if !rest.is_empty() {
                    return Err("deserialize left bytes over".to_string());
                }
                pr = restored;
            }
            pr.store_tag_scores(p.store_scores);
            Ok(pr)
        });
        match r {
            Some(Ok(pr)) => out.push(pr),
            Some(Err(e)) => return Built::HarnessError(format!("cannot build predictor: {e}")),
            None => return Built::HarnessError(format!("predictor construction panicked: {}", last_panic())),
        }
    }
    Built::Ok(out)
}

fn fresh_sentence<'p>(op: &'p Op) -> Option<Result<Sentence<'p, 'p>, String>> {
    match op {
        Op::UpdateRaw { s, owned } | Op::NewRaw { s, owned } => guarded(|| {
            if *owned { Sentence::from_raw(s.clone()) } else { Sentence::from_raw(s.as_str()) }.map_err(|e| e.to_string())
        }),
        Op::UpdateTokenized { s, .. } | Op::NewTokenized { s } => {
            guarded(|| Sentence::from_tokenized(s).map_err(|e| e.to_string()))
        }
        Op::UpdatePartial { s, .. } | Op::NewPartial { s } => {
            guarded(|| Sentence::from_partial_annotation(s).map_err(|e| e.to_string()))
        }
        Op::NewDefault => guarded(|| Ok(Sentence::default())),
        _ => unreachable!(),
    }
}

fn u2b(b: u8) -> CharacterBoundary {
    match b {
        0 => CharacterBoundary::NotWordBoundary,
        1 => CharacterBoundary::WordBoundary,
        _ => CharacterBoundary::Unknown,
    }
}

fn ctype(t: u8) -> CharacterType {
    match t {
        1 => CharacterType::Digit,
        2 => CharacterType::Roman,
        3 => CharacterType::Hiragana,
        4 => CharacterType::Katakana,
        5 => CharacterType::Kanji,
        _ => CharacterType::Other,
    }
}

fn make_filter(f: &FilterSpec) -> Box<dyn SentenceFilter> {
    match f {
        FilterSpec::WsConst(t) => Box::new(KyteaWsConstFilter::new(ctype(*t))),
        FilterSpec::Grapheme => Box::new(ConcatGraphemeClustersFilter),
        FilterSpec::SplitLinebreaks => Box::new(SplitLinebreaksFilter),
        FilterSpec::PatternTagger(rules) => {
            let mut m = hashbrown::HashMap::new();
            for (k, v) in rules {
                m.insert(k.clone(), v.clone());
            }
            Box::new(PatternMatchTagger::new(m))
        }
    }
}

struct Client<'p> {
    reused: Sentence<'p, 'p>,
    shadow: Sentence<'p, 'p>,
    /// predictor the executor believes is linked (set by predict, cleared by any update)
    linked: Option<usize>,
    /// predictor of the latest fill_tags since the last update, if it stores tag scores
    cands_ok: bool,
    next: usize,
    prev_tagged: bool,
    prev_len: usize,
    last_pred: Option<usize>,
    prev_failed: bool,
}

fn apply_plain<'p>(s: &mut Sentence<'p, 'p>, op: &'p Op, preds: &'p [Predictor], do_fill: bool) {
    match op {
        Op::ResetTags(k) => s.reset_tags(clamp_tags(*k, s.as_raw_text().len())),
        Op::Predict(p) => preds[*p].predict(s),
        Op::FillTags => {
            if do_fill {
                s.fill_tags()
            }
        }
        Op::Filter(f) => make_filter(f).filter(s),
        Op::SetBoundary { pos, b } => {
            let n = s.boundaries().len();
            if n > 0 {
                let i = usize::from(*pos) * n / 65536;
                s.boundaries_mut()[i] = u2b(*b);
            }
        }
        Op::SetTag { pos, tag } => {
            let n = s.tags().len();
            if n > 0 {
                let i = usize::from(*pos) * n / 65536;
                s.tags_mut()[i] = tag.as_deref().map(Cow::Borrowed);
            }
        }
        _ => unreachable!(),
    }
}

/// Keeps a huge `reset_tags(k)` within a sane number of slots (k x characters <= ~200 000).
fn clamp_tags(k: usize, text_bytes: usize) -> usize {
    k.min((200_000 / text_bytes.max(1)).max(3))
}

fn abstract_state(o: &SentObs, linked_kind: u8) -> u64 {
    let len = o.raw.value().map(|r| r.chars().count()).unwrap_or(0);
    let lb = match len {
        0 | 1 => 0u64,
        2 => 1,
        3..=5 => 2,
        _ => 3,
    };
    let nt = o.n_tags.value().copied().unwrap_or(9).min(9) as u64;
    let tp = o.tags.value().map(|t| t.iter().any(|x| x.is_some())).unwrap_or(false) as u64;
    let sp = o.scores.value().map(|s| !s.is_empty()).unwrap_or(false) as u64;
    let mix = o
        .bounds
        .value()
        .map(|b| {
            let u = b.iter().filter(|&&x| x == 2).count();
            if b.is_empty() || u == b.len() {
                0u64
            } else if u == 0 {
                2
            } else {
                1
            }
        })
        .unwrap_or(3);
    lb | (nt << 4) | (tp << 8) | (sp << 9) | (u64::from(linked_kind) << 10) | (mix << 13)
}

fn check_expect(o: &SentObs, e: &Expect) -> Option<&'static str> {
    let raw = o.raw.value()?;
    if *raw != e.raw {
        return Some("as_raw_text");
    }
    if o.bounds.value()? != &e.labels {
        return Some("boundaries");
    }
    let n = e.tags.iter().map(|t| t.len()).max().unwrap_or(0);
    if *o.n_tags.value()? != n {
        return Some("n_tags");
    }
    let mut grid = vec![];
    for t in &e.tags {
        for j in 0..n {
            grid.push(t.get(j).cloned().flatten());
        }
    }
    if o.tags.value()? != &grid {
        return Some("tags");
    }
    let types: Vec<u8> = e.raw.chars().map(|c| CharacterType::get_type(c) as u8).collect();
    if o.types.value()? != &types {
        return Some("char_types");
    }
    None
}

pub struct Exec<'a> {
    pub focus_filter: Option<Focus>,
    pub collect_states: bool,
    pub log: Option<&'a mut Vec<String>>,
}

/// Executes a plan. Returns the first violation relevant to `focus_filter` (all if `None`).
pub fn execute(plan: &HistPlan, preds: &[Predictor], ex: &mut Exec) -> (Option<Violation>, RunStats) {
    let mut st = RunStats::default();
    let mut h = Fnv::default();
    let mut fp = Fnv::default();
    let mut probes: std::collections::BTreeMap<&'static str, u64> = Default::default();
    let mut clients: Vec<Client> = plan
        .clients
        .iter()
        .map(|_| Client {
            reused: Sentence::default(),
            shadow: Sentence::default(),
            linked: None,
            cands_ok: false,
            next: 0,
            prev_tagged: false,
            prev_len: 1,
            last_pred: None,
            prev_failed: false,
        })
        .collect();
    let total = plan.n_ops();
    let mut il = plan.interleave.iter();
    let mut states = BTreeSet::new();
    let mut transitions = BTreeSet::new();
    let mut pred_users: Vec<BTreeSet<usize>> = vec![BTreeSet::new(); preds.len()];
    let mut violation: Option<Violation> = None;

    macro_rules! probe {
        ($name:expr) => {
            *probes.entry($name).or_insert(0) += 1
        };
    }

    for _ in 0..total {
        // scheduler decision: the plan's interleaving vector, falling back to the next live client
        let mut ci = il.next().map(|&c| usize::from(c)).unwrap_or(0) % clients.len();
        let mut guard = 0;
        while clients[ci].next >= plan.clients[ci].len() {
            ci = (ci + 1) % clients.len();
            guard += 1;
            if guard > clients.len() {
                break;
            }
        }
        if clients[ci].next >= plan.clients[ci].len() {
            break;
        }
        let oi = clients[ci].next;
        clients[ci].next += 1;
        let op = &plan.clients[ci][oi];
        let op = if let Op::UpdateRawAgain = op {
            match plan.clients[ci][..oi].iter().rev().find(|o| matches!(o, Op::UpdateRaw { owned: false, .. })) {
                Some(earlier) => {
                    probe!("update_raw-with-the-identical-slice");
                    earlier
                }
                None => continue,
            }
        } else {
            op
        };
        let c = &mut clients[ci];
        st.steps += 1;
        h.u64(ci as u64);
        h.u64(u64::from(op.kind_id()));
        fp.u64(u64::from(op.kind_id()));
        let before_state = if ex.collect_states {
            let kind = linked_kind(c.linked, plan);
            Some(abstract_state(&observe(&c.reused, false), kind))
        } else {
            None
        };

        let mut step_violation: Option<(Focus, String, String)> = None;
        #[allow(unused_assignments)]
        let mut outcome: u8 = 0;

        if op.is_update_or_ctor() {
            // ---------------- update / constructor step (C05) ----------------
            let is_ctor = matches!(op, Op::NewRaw { .. } | Op::NewTokenized { .. } | Op::NewPartial { .. } | Op::NewDefault);
            let fresh = fresh_sentence;
            let ctor_name = match op {
                Op::UpdateRaw { .. } | Op::NewRaw { .. } => "from_raw",
                Op::UpdateTokenized { .. } | Op::NewTokenized { .. } => "from_tokenized",
                Op::UpdatePartial { .. } | Op::NewPartial { .. } => "from_partial_annotation",
                _ => "default",
            };
            let f1 = fresh(op);
            let (expect, input): (Option<&Expect>, &str) = match op {
                Op::UpdateTokenized { s, expect } | Op::UpdatePartial { s, expect } => (expect.as_ref(), s),
                Op::UpdateRaw { s, .. } | Op::NewRaw { s, .. } | Op::NewTokenized { s } | Op::NewPartial { s } => (None, s),
                _ => (None, ""),
            };
            if input == "\\" || (!input.is_empty() && input.chars().all(|c| c == '\\')) {
                probe!("input-only-escapes");
            }
            match f1 {
                None => {
                    step_violation = Some((Focus::C05, format!("panic@{ctor_name}"), format!("input={input:?}: {}", last_panic())));
                    outcome = 9;
                }
                Some(fres) => {
                    if is_ctor {
                        match fres {
                            Ok(sf) => {
                                outcome = 1;
                                // a second, independent construction is the comparison object
                                let second = fresh(op).and_then(|r| r.ok());
                                c.reused = sf;
                                c.shadow = second.unwrap_or_default();
                                c.linked = None;
                                c.cands_ok = false;
                                st.ok_updates += 1;
                            }
                            Err(msg) => {
                                outcome = 2;
                                st.err_msgs.insert(msg);
                                st.failed_updates += 1;
                            }
                        }
                    } else {
                        let r = guarded(|| match op {
                            Op::UpdateRaw { s, owned } => {
                                if *owned { c.reused.update_raw(s.clone()) } else { c.reused.update_raw(s.as_str()) }
                                    .map_err(|e| e.to_string())
                            }
                            Op::UpdateTokenized { s, .. } => c.reused.update_tokenized(s).map_err(|e| e.to_string()),
                            Op::UpdatePartial { s, .. } => c.reused.update_partial_annotation(s).map_err(|e| e.to_string()),
                            _ => unreachable!(),
                        });
                        match r {
                            None => {
                                step_violation = Some((
                                    Focus::C05,
                                    format!("panic@{}", op.kind()),
                                    format!("input={input:?}: {}", last_panic()),
                                ));
                                outcome = 9;
                                // the object may be half-updated: restart both from the default
                                c.reused = Sentence::default();
                                c.shadow = Sentence::default();
                            }
                            Some(ur) => {
                                if ur.is_ok() != fres.is_ok() {
                                    step_violation = Some((
                                        Focus::C05,
                                        format!("verdict-mismatch@{}", op.kind()),
                                        format!("input={input:?} update={:?} constructor_ok={}", ur, fres.is_ok()),
                                    ));
                                }
                                match (ur, fres) {
                                    (Ok(()), Ok(sf)) => {
                                        outcome = 1;
                                        st.ok_updates += 1;
                                        c.shadow = sf;
                                    }
                                    (Err(msg), _) => {
                                        outcome = 2;
                                        st.failed_updates += 1;
                                        st.err_msgs.insert(msg);
                                        if c.prev_tagged {
                                            probe!("failed-update-after-tagged-state");
                                        }
                                        if c.linked.is_some() {
                                            probe!("failed-update-with-linked-predictor");
                                        }
                                        c.shadow = Sentence::default();
                                    }
                                    (Ok(()), Err(_)) => {
                                        outcome = 3;
                                        c.shadow = Sentence::default();
                                    }
                                }
                            }
                        }
                        if matches!(op, Op::UpdateRaw { .. }) && c.prev_tagged && outcome == 1 {
                            probe!("raw-update-after-tagged-state");
                        }
                        c.linked = None;
                        c.cands_ok = false;
                    }
                }
            }
            let ro = observe(&c.reused, false);
            let so = observe(&c.shadow, false);
            if step_violation.is_none() {
                if let Some(acc) = so.first_panic() {
                    step_violation = Some((
                        Focus::C05,
                        format!("panic@{acc}-after-{ctor_name}"),
                        format!("input={input:?}: {}", last_panic()),
                    ));
                } else if let Some(acc) = ro.first_panic() {
                    step_violation = Some((
                        Focus::C05,
                        format!("panic@{acc}-after-{}", op.kind()),
                        format!("input={input:?}: {}", last_panic()),
                    ));
                } else if let Some(acc) = ro.first_diff(&so) {
                    step_violation = Some((
                        Focus::C05,
                        format!("state-mismatch@{}:{acc}", op.kind()),
                        format!("input={input:?} reused={:?} fresh={:?}", ro, so),
                    ));
                } else if let Some(w) = ro.structural() {
                    step_violation = Some((Focus::C05, format!("invariant@{}:{w}", op.kind()), format!("input={input:?} obs={:?}", ro)));
                } else if outcome == 1 && ro.scores.value().map(|s| !s.is_empty()).unwrap_or(false) {
                    step_violation = Some((Focus::C05, format!("invariant@{}:scores-not-empty", op.kind()), format!("input={input:?}")));
                } else if outcome == 1 {
                    if let Some(e) = expect {
                        if let Some(acc) = check_expect(&ro, e) {
                            step_violation = Some((
                                Focus::C05,
                                format!("ground-truth@{}:{acc}", op.kind()),
                                format!("input={input:?} obs={:?} expect={:?}", ro, e),
                            ));
                        }
                    } else if let Op::UpdateTokenized { s, .. } | Op::NewTokenized { s } | Op::UpdatePartial { s, .. } | Op::NewPartial { s } = op {
                        // no generator ground truth: ask the independent reference parser
                        let tokenized = matches!(op, Op::UpdateTokenized { .. } | Op::NewTokenized { .. });
                        match if tokenized { crate::refparse::tokenized(s) } else { crate::refparse::partial(s) } {
                            Some(e) => {
                                probe!("accepted-input-checked-against-reference-parser");
                                if let Some(acc) = check_expect(&ro, &e) {
                                    step_violation = Some((
                                        Focus::C05,
                                        format!("reference-parser@{}:{acc}", op.kind()),
                                        format!("input={input:?} obs={:?} reference={:?}", ro, e),
                                    ));
                                }
                            }
                            None => probe!("accepted-by-library-rejected-by-reference-parser(not flagged)"),
                        }
                    } else if let Op::UpdateRaw { s, .. } | Op::NewRaw { s, .. } = op {
                        let e = Expect {
                            raw: s.clone(),
                            labels: vec![2; s.chars().count().saturating_sub(1)],
                            tags: vec![vec![]; s.chars().count()],
                        };
                        if let Some(acc) = check_expect(&ro, &e) {
                            step_violation = Some((
                                Focus::C05,
                                format!("ground-truth@{}:{acc}", op.kind()),
                                format!("input={input:?} obs={:?}", ro),
                            ));
                        }
                    }
                }
            }
            let len = ro.raw.value().map(|r| r.chars().count()).unwrap_or(1);
            if outcome == 1 {
                if len < c.prev_len {
                    probe!("update-shrinks-text");
                }
                if len > c.prev_len {
                    probe!("update-grows-text");
                }
                if len == 1 {
                    probe!("single-character-sentence");
                }
                if ro.tags.value().map(|t| t.iter().flatten().any(|t| t.contains(['/', ' ', '\\']))).unwrap_or(false) {
                    probe!("tag-with-metacharacter");
                }
            }
            c.prev_len = len;
            c.prev_tagged = ro.n_tags.value().copied().unwrap_or(0) > 0;
            c.prev_failed = outcome == 2;
            ro.digest(&mut h);
        } else {
            // ---------------- in-segment step (C08) ----------------
            let mut do_fill = true;
            if let Op::FillTags = op {
                // documented precondition: the linked predictor was built with predict_tags = true
                if let Some(p) = c.linked {
                    if !plan.preds[p].predict_tags {
                        do_fill = false;
                    }
                }
                if do_fill && c.linked.is_some() {
                    probe!("fill_tags-with-linked-predictor");
                    let p = c.linked.unwrap();
                    if plan.models[plan.preds[p].model].n_tags() == 0 && c.prev_tagged {
                        probe!("fill_tags-0-category-predictor-on-tagged-history");
                    }
                }
            }
            if let Op::Predict(p) = op {
                let p = *p % preds.len();
                pred_users[p].insert(ci);
                if c.last_pred.is_some() && c.last_pred != Some(p) && c.linked.is_some() {
                    probe!("predictor-switch-without-update");
                }
                if c.prev_failed {
                    probe!("predict-after-failed-update");
                }
                let m = &plan.models[plan.preds[p].model];
                if m.char_window_size > 7 || m.type_window_size > 7 {
                    probe!("variable-weight-layout");
                } else {
                    probe!("fixed-weight-layout");
                }
                if !plan.preds[p].predict_tags || m.tag_models.is_empty() {
                    if (1..=3).contains(&m.type_window_size) && !m.type_ngram_model.is_empty() {
                        probe!("cached-type-scorer");
                    }
                } else {
                    probe!("tagging-scorers");
                }
                if c.reused.as_raw_text().len() != c.reused.as_raw_text().chars().count() {
                    probe!("predict-multibyte-text");
                }
            }
            let r1 = guarded(|| apply_plain(&mut c.reused, op, preds, do_fill));
            let p1 = last_panic();
            let r2 = guarded(|| apply_plain(&mut c.shadow, op, preds, do_fill));
            match (r1.is_some(), r2.is_some()) {
                (false, true) => {
                    step_violation = Some((Focus::C08, format!("panic@{}", op.kind()), format!("reused sentence only: {p1}")));
                    outcome = 9;
                }
                (false, false) => {
                    step_violation =
                        Some((Focus::C08, format!("panic@{}(fresh-too)", op.kind()), format!("both sentences: {p1}")));
                    outcome = 8;
                }
                (true, false) => {
                    step_violation =
                        Some((Focus::C08, format!("panic@{}(fresh-only)", op.kind()), format!("fresh sentence only: {}", last_panic())));
                    outcome = 7;
                }
                (true, true) => {
                    outcome = 1;
                }
            }
            match op {
                Op::Predict(p) => {
                    c.linked = Some(*p % preds.len());
                    c.last_pred = c.linked;
                }
                Op::FillTags if do_fill => {
                    if let Some(p) = c.linked {
                        let ps = &plan.preds[p];
                        // tag_candidates() is observed only inside its documented precondition
                        c.cands_ok = ps.predict_tags && ps.store_scores;
                    }
                }
                _ => {}
            }
            let with_cands = c.cands_ok;
            let ro = observe(&c.reused, with_cands);
            let so = observe(&c.shadow, with_cands);
            if with_cands {
                probe!("tag_candidates-observed");
            }
            if step_violation.is_none() {
                if let Some(acc) = ro.first_diff(&so) {
                    step_violation = Some((
                        Focus::C08,
                        format!("state-mismatch@{}:{acc}", op.kind()),
                        format!("reused={:?} fresh={:?}", ro, so),
                    ));
                } else if let Some(acc) = ro.first_panic() {
                    step_violation =
                        Some((Focus::C08, format!("panic@{acc}-after-{}(fresh-too)", op.kind()), last_panic()));
                }
            }
            // ---- absolute oracles: the shadow repeats every in-segment operation, so a defect
            // that only needs the operations since the last update would show on both sides.
            // predict and fill_tags are functions of (text[, boundaries], predictor); reset_tags
            // has a stated postcondition.
            if step_violation.is_none() && outcome == 1 {
                match op {
                    Op::Predict(p) => {
                        let p = *p % preds.len();
                        let text = c.reused.as_raw_text().to_string();
                        let fresh = guarded(|| {
                            let mut f = Sentence::from_raw(text).ok()?;
                            preds[p].predict(&mut f);
                            Some((f.boundary_scores().to_vec(), observe(&f, false).bounds))
                        });
                        if let Some(Some((fs, fb))) = fresh {
                            if ro.scores.value() != Some(&fs) {
                                step_violation = Some((
                                    Focus::C08,
                                    "history-dependence@predict:boundary_scores".into(),
                                    format!("reused={:?} from_raw+predict={:?}", ro.scores, fs),
                                ));
                            } else if ro.bounds != fb {
                                step_violation = Some((
                                    Focus::C08,
                                    "history-dependence@predict:boundaries".into(),
                                    format!("reused={:?} from_raw+predict={:?}", ro.bounds, fb),
                                ));
                            }
                            probe!("predict-compared-with-from_raw");
                        }
                    }
                    Op::FillTags if do_fill => {
                        if let Some(p) = c.linked {
                            let ps = &plan.preds[p];
                            if ps.predict_tags && plan.models[ps.model].n_tags() > 0 {
                                let text = c.reused.as_raw_text().to_string();
                                let bounds: Vec<CharacterBoundary> = c.reused.boundaries().to_vec();
                                let fresh = guarded(|| {
                                    let mut f = Sentence::from_raw(text).ok()?;
                                    preds[p].predict(&mut f);
                                    f.boundaries_mut().copy_from_slice(&bounds);
                                    f.fill_tags();
                                    Some(observe(&f, with_cands))
                                });
                                if let Some(Some(fo)) = fresh {
                                    let field = if ro.n_tags != fo.n_tags {
                                        Some("n_tags")
                                    } else if ro.tags != fo.tags {
                                        Some("tags")
                                    } else if ro.tok_tags != fo.tok_tags {
                                        Some("token_tags")
                                    } else if ro.cands != fo.cands {
                                        Some("tag_candidates")
                                    } else {
                                        None
                                    };
                                    if let Some(field) = field {
                                        step_violation = Some((
                                            Focus::C08,
                                            format!("history-dependence@fill_tags:{field}"),
                                            format!("reused={:?} from_raw+predict+boundaries+fill_tags={:?}", ro, fo),
                                        ));
                                    }
                                    probe!("fill_tags-compared-with-from_raw");
                                }
                            }
                        }
                    }
                    Op::ResetTags(k) => {
                        let k = &clamp_tags(*k, ro.raw.value().map(|r| r.len()).unwrap_or(1));
                        let chars = ro.raw.value().map(|r| r.chars().count()).unwrap_or(0);
                        let ok = ro.n_tags.value() == Some(k)
                            && ro.tags.value().map(|t| t.len() == chars * k && t.iter().all(|x| x.is_none())).unwrap_or(false);
                        if !ok {
                            step_violation = Some((
                                Focus::C05,
                                "postcondition@reset_tags".into(),
                                format!("after reset_tags({k}): n_tags={:?} tags={:?}", ro.n_tags, ro.tags),
                            ));
                        }
                    }
                    _ => {}
                }
            }
            c.prev_tagged = ro.n_tags.value().copied().unwrap_or(0) > 0;
            ro.digest(&mut h);
        }
        h.u64(u64::from(outcome));
        fp.u64(u64::from(outcome));
        if outcome == 2 || outcome >= 3 {
            st.nontrivial = true;
        }
        if let Some(b) = before_state {
            let kind = linked_kind(c.linked, plan);
            let a = abstract_state(&observe(&c.reused, false), kind);
            states.insert(b);
            states.insert(a);
            transitions.insert(b.wrapping_mul(0x9e37_79b9_7f4a_7c15) ^ (u64::from(op.kind_id()) << 56) ^ a.rotate_left(17));
        }
        if let Some(log) = ex.log.as_deref_mut() {
            log.push(format!(
                "step client={ci} op#{oi} {} outcome={outcome}{}",
                op.kind(),
                step_violation.as_ref().map(|v| format!(" VIOLATION {}", v.1)).unwrap_or_default()
            ));
        }
        if let Some((foc, class, detail)) = step_violation {
            if ex.focus_filter.is_none() || ex.focus_filter == Some(foc) {
                violation = Some(Violation {
                    property: if foc == Focus::C05 { "C05".into() } else { "C08".into() },
                    class,
                    detail,
                    client: ci,
                    op_index: oi,
                });
                break;
            } else {
                // a violation of the other property: resynchronise and keep going
                probe!("foreign-violation-skipped");
            }
        }
    }
    for u in &pred_users {
        if u.len() >= 2 {
            probe!("predictor-shared-by-clients");
        }
    }
    // a run with a predictor switch or several clients on one predictor is also non-trivial
    if probes.contains_key("predictor-switch-without-update") || probes.contains_key("predictor-shared-by-clients") {
        st.nontrivial = true;
    }
    st.digest = h.finish();
    st.fingerprint = fp.finish();
    st.states = states.into_iter().collect();
    st.transitions = transitions.into_iter().collect();
    st.probes = probes.into_iter().collect();
    (violation, st)
}

fn linked_kind(linked: Option<usize>, plan: &HistPlan) -> u8 {
    match linked {
        None => 0,
        Some(p) => {
            let ps = &plan.preds[p];
            if !ps.predict_tags {
                1
            } else if !ps.store_scores {
                2
            } else {
                3
            }
        }
    }
}

// ---------------------------------------------------------------------------------------
// Thread tier: every client on its own real thread, sharing the predictors. Used under Miri,
// whose scheduler decides every preemption from its seed.

/// Cheap structural digest of the observable results (no formatting: this runs under Miri).
fn light_digest(s: &Sentence, cands: bool) -> u64 {
    let mut h = Fnv::default();
    h.bytes(s.as_raw_text().as_bytes());
    for &x in s.boundary_scores() {
        h.u64(x as u32 as u64);
    }
    for &b in s.boundaries() {
        h.bytes(&[b as u8]);
    }
    h.u64(s.n_tags() as u64);
    for t in s.tags() {
        match t {
            Some(t) => h.str(t),
            None => h.bytes(&[0xfe]),
        }
    }
    let mut buf = String::new();
    s.write_tokenized_text(&mut buf);
    h.str(&buf);
    if cands {
        for t in s.iter_tokens() {
            for c in t.tag_candidates() {
                for (tag, score) in c {
                    h.str(tag);
                    h.u64(score as u32 as u64);
                }
                h.bytes(&[0xfd]);
            }
        }
    }
    h.finish()
}

fn client_trace(ops: &[Op], plan: &HistPlan, preds: &[Predictor], barrier: Option<&std::sync::Barrier>) -> Vec<u64> {
    let mut out = vec![];
    let mut s = Sentence::default();
    let mut linked: Option<usize> = None;
    let mut cands_ok = false;
    for (oi, op) in ops.iter().enumerate() {
        if let Some(b) = barrier {
            // all clients start their k-th operation together
            b.wait();
        }
        let op = if let Op::UpdateRawAgain = op {
            match ops[..oi].iter().rev().find(|o| matches!(o, Op::UpdateRaw { owned: false, .. })) {
                Some(earlier) => earlier,
                None => {
                    out.push(0);
                    continue;
                }
            }
        } else {
            op
        };
        if op.is_update_or_ctor() {
            match op {
                Op::UpdateRaw { s: t, owned } => {
                    let _ = if *owned { s.update_raw(t.clone()) } else { s.update_raw(t.as_str()) };
                }
                Op::UpdateTokenized { s: t, .. } => {
                    let _ = s.update_tokenized(t);
                }
                Op::UpdatePartial { s: t, .. } => {
                    let _ = s.update_partial_annotation(t);
                }
                Op::NewRaw { s: t, .. } => {
                    if let Ok(n) = Sentence::from_raw(t.as_str()) {
                        s = n;
                    }
                }
                Op::NewTokenized { s: t } => {
                    if let Ok(n) = Sentence::from_tokenized(t) {
                        s = n;
                    }
                }
                Op::NewPartial { s: t } => {
                    if let Ok(n) = Sentence::from_partial_annotation(t) {
                        s = n;
                    }
                }
                _ => s = Sentence::default(),
            }
            linked = None;
            cands_ok = false;
        } else {
            let mut do_fill = true;
            if let (Op::FillTags, Some(p)) = (op, linked) {
                do_fill = plan.preds[p].predict_tags;
            }
            // a panic inside the library must not leave the other clients waiting at the barrier
            if guarded(|| apply_plain(&mut s, op, preds, do_fill)).is_none() {
                out.push(0xdead_0000_0000_0000 | out.len() as u64);
                s = Sentence::default();
                linked = None;
                cands_ok = false;
                continue;
            }
            match op {
                Op::Predict(p) => linked = Some(*p % preds.len()),
                Op::FillTags if do_fill => {
                    if let Some(p) = linked {
                        let ps = &plan.preds[p];
                        cands_ok = ps.predict_tags && ps.store_scores;
                    }
                }
                _ => {}
            }
        }
        match guarded(|| light_digest(&s, cands_ok)) {
            Some(d) => out.push(d),
            None => {
                out.push(0xdead_0000_0000_0000 | out.len() as u64);
                s = Sentence::default();
                linked = None;
                cands_ok = false;
            }
        }
    }
    out
}

/// The serial reference: every client's trace, one after the other.
pub fn serial_traces(plan: &HistPlan, preds: &[Predictor]) -> Vec<Vec<u64>> {
    plan.clients.iter().map(|ops| client_trace(ops, plan, preds, None)).collect()
}

/// `reps` times all clients concurrently (one real thread each, sharing the predictors); every
/// concurrent trace must equal the serial reference. The caller passes predictors that have
/// *not* been used before (the reference is computed on a separate set), so that state a
/// predictor might initialise lazily is still cold when the threads first meet. Within one
/// Miri process every repetition sees a different interleaving because the scheduler's PRNG
/// advances.
pub fn execute_threaded(plan: &HistPlan, preds: &[Predictor], serial: &[Vec<u64>], reps: usize) -> Option<Violation> {
    // when every client has the same number of operations (same-shape plans), odd repetitions
    // align the clients at every operation with a barrier of the harness's own: the k-th
    // operations then overlap for certain instead of by luck
    let same_len = plan.clients.iter().all(|c| c.len() == plan.clients[0].len());
    for rep in 0..reps {
        let barrier = (same_len && rep % 2 == 0).then(|| std::sync::Barrier::new(plan.clients.len()));
        let barrier = barrier.as_ref();
        let conc: Vec<Option<Vec<u64>>> = std::thread::scope(|sc| {
            let hs: Vec<_> = plan.clients.iter().map(|ops| sc.spawn(move || client_trace(ops, plan, preds, barrier))).collect();
            hs.into_iter().map(|h| h.join().ok()).collect()
        });
        for (ci, (a, b)) in serial.iter().zip(&conc).enumerate() {
            match b {
                None => {
                    return Some(Violation {
                        property: "C08".into(),
                        class: "thread-panic".into(),
                        detail: format!("repetition {rep}: a client thread panicked while the serial run did not"),
                        client: ci,
                        op_index: 0,
                    })
                }
                Some(b) => {
                    if let Some(i) = a.iter().zip(b).position(|(x, y)| x != y) {
                        return Some(Violation {
                            property: "C08".into(),
                            class: format!("thread-result-mismatch@{}", plan.clients[ci][i].kind()),
                            detail: format!("repetition {rep}: concurrent result differs from serial result"),
                            client: ci,
                            op_index: i,
                        });
                    }
                }
            }
        }
    }
    None
}

/// Suppresses "unused" warnings for items only some configurations use.
pub fn _touch(_: &O<u8>) {}
