//! Worker loop, minimiser and replay for `histsim` (C05, C08).

use serde_json::json;

use crate::common::*;
use crate::histsim::*;
use crate::rng::{run_seed, Rng};

pub const TAG_C05: u64 = 0xC05;
pub const TAG_C08: u64 = 0xC08;
/// run indices from here on denote long-text thread plans (Miri tier, thorough)
pub const LONG_TEXT_RUN_BASE: u64 = 1 << 40;

pub fn focus_of(property: &str) -> Focus {
    if property == "C05" {
        Focus::C05
    } else {
        Focus::C08
    }
}

pub fn plan_for(property: &str, seed: u64, run: u64, miri: bool) -> HistPlan {
    let focus = focus_of(property);
    let tag = if focus == Focus::C05 { TAG_C05 } else { TAG_C08 } ^ if miri { 0x1000 } else { 0 };
    let mut rng = Rng::new(run_seed(seed, tag, run));
    let mut knobs = if miri { HistKnobs::miri() } else { HistKnobs::for_focus(focus) };
    if miri && run >= LONG_TEXT_RUN_BASE {
        // long-text thread plans (1024+ characters): about a minute per Miri seed, thorough only
        knobs.long_thread_texts = true;
        knobs.max_clients = 2;
    } else if miri && run % 3 == 2 {
        // every third thread plan draws its texts from a pool of two (see gen_plan)
        // three clients running the same program in (barrier-aligned or natural) lock-step
        knobs.text_pool = true;
        knobs.min_clients = 3;
        knobs.max_clients = 3;
    }
    if !miri {
        // soak runs: long histories on one object with short texts, so that anything that
        // counts operations (and could wrap or cross a threshold) is driven past 2^8 and 2^16
        if run % 5_000 == 4_999 {
            knobs.max_ops = 600;
            knobs.min_ops = 300;
            knobs.max_clients = 1;
            knobs.max_text = 8;
        }
        if run % 20_000 == 19_998 {
            // mega runs: a short history that starts with a sentence beyond 2^20 bytes
            knobs.mega = true;
            knobs.max_ops = 10;
            knobs.min_ops = 5;
            knobs.max_clients = 1;
            knobs.max_text = 12;
        }
        if run % 50_000 == 49_999 {
            // enough *successful* updates on one object to pass 2^16 (update-heavy mix)
            knobs.max_ops = 200_000;
            knobs.min_ops = 170_000;
            knobs.max_clients = 1;
            knobs.max_text = 6;
            knobs.update_heavy = true;
        }
    }
    gen_plan(&mut rng, &knobs)
}

/// Outcome of executing one plan in this process.
pub enum PlanResult {
    Pass(RunStats),
    Violation(Violation, RunStats),
    HarnessError(String),
}

pub fn run_plan(plan: &HistPlan, focus: Option<Focus>, collect_states: bool, log: Option<&mut Vec<String>>) -> PlanResult {
    match build_predictors(plan) {
        Built::HarnessError(e) => PlanResult::HarnessError(e),
        Built::Ok(preds) => {
            let mut ex = Exec { focus_filter: focus, collect_states, log };
            let (v, st) = execute(plan, &preds, &mut ex);
            match v {
                Some(v) => PlanResult::Violation(v, st),
                None => PlanResult::Pass(st),
            }
        }
    }
}

fn same_class(plan: &HistPlan, focus: Focus, class: &str) -> bool {
    matches!(run_plan(plan, Some(focus), false, None), PlanResult::Violation(v, _) if v.class == class)
}

fn op_strings_mut(op: &mut Op) -> Option<&mut String> {
    match op {
        Op::UpdateRaw { s, .. }
        | Op::UpdateTokenized { s, .. }
        | Op::UpdatePartial { s, .. }
        | Op::NewRaw { s, .. }
        | Op::NewTokenized { s }
        | Op::NewPartial { s } => Some(s),
        _ => None,
    }
}

/// Delta debugging over the plan while the violation class persists.
pub fn minimise(plan: &HistPlan, focus: Focus, class: &str, client: usize) -> (HistPlan, usize) {
    let mut budget = 4000usize;
    let start_budget = budget;
    start_minimisation(90);
    let mut best = plan.clone();
    // 1. drop the other clients
    if best.clients.len() > 1 {
        let mut cand = best.clone();
        cand.clients = vec![best.clients[client.min(best.clients.len() - 1)].clone()];
        cand.interleave = vec![0; cand.clients[0].len()];
        budget -= 1;
        if same_class(&cand, focus, class) {
            best = cand;
        } else {
            // try dropping clients one at a time
            let mut i = 0;
            while i < best.clients.len() && best.clients.len() > 1 && budget > 0 {
                let mut cand = best.clone();
                cand.clients.remove(i);
                cand.interleave = cand.interleave.iter().map(|&c| if usize::from(c) > i { c - 1 } else { c }).collect();
                budget -= 1;
                if same_class(&cand, focus, class) {
                    best = cand;
                } else {
                    i += 1;
                }
            }
        }
    }
    // 2. drop operations per client
    for ci in 0..best.clients.len() {
        let ops = best.clients[ci].clone();
        let base = best.clone();
        let kept = ddmin(ops, &mut budget, |cand_ops| {
            let mut cand = base.clone();
            cand.clients[ci] = cand_ops.to_vec();
            same_class(&cand, focus, class)
        });
        best.clients[ci] = kept;
    }
    // 3. erase expectations that are not needed and simplify the interleaving
    if !minimisation_expired() {
        let mut cand = best.clone();
        cand.interleave.clear();
        budget = budget.saturating_sub(1);
        if same_class(&cand, focus, class) {
            best = cand;
        }
    }
    // 4. shorten strings
    for ci in 0..best.clients.len() {
        for oi in 0..best.clients[ci].len() {
            if minimisation_expired() {
                break;
            }
            let mut probe = best.clients[ci][oi].clone();
            let Some(s) = op_strings_mut(&mut probe).map(|s| s.clone()) else { continue };
            let base = best.clone();
            let short = shrink_string(&s, &mut budget, |t| {
                let mut cand = base.clone();
                if let Some(x) = op_strings_mut(&mut cand.clients[ci][oi]) {
                    *x = t.to_string();
                }
                if let Op::UpdateTokenized { expect, .. } | Op::UpdatePartial { expect, .. } = &mut cand.clients[ci][oi] {
                    *expect = None;
                }
                same_class(&cand, focus, class)
            });
            if short != s {
                if let Some(x) = op_strings_mut(&mut best.clients[ci][oi]) {
                    *x = short;
                }
                if let Op::UpdateTokenized { expect, .. } | Op::UpdatePartial { expect, .. } = &mut best.clients[ci][oi] {
                    *expect = None;
                }
            }
        }
    }
    // 5. drop model entries
    for mi in 0..best.models.len() {
        if minimisation_expired() {
            break;
        }
        macro_rules! shrink_field {
            ($field:ident) => {{
                let items = best.models[mi].$field.clone();
                let base = best.clone();
                let kept = ddmin(items, &mut budget, |c| {
                    let mut cand = base.clone();
                    cand.models[mi].$field = c.to_vec();
                    same_class(&cand, focus, class)
                });
                best.models[mi].$field = kept;
            }};
        }
        shrink_field!(char_ngram_model);
        shrink_field!(type_ngram_model);
        shrink_field!(dict_model);
        shrink_field!(tag_models);
    }
    (best, start_budget - budget)
}

pub fn signature_of(plan: &HistPlan, v: &Violation) -> String {
    let op = plan.clients.get(v.client).and_then(|c| c.get(v.op_index));
    match op {
        Some(op) => {
            let mut o = op.clone();
            match op_strings_mut(&mut o) {
                Some(s) => format!("{}({:?})", op.kind(), s),
                None => op.kind().to_string(),
            }
        }
        None => String::new(),
    }
}

pub fn plan_summary(plan: &HistPlan) -> serde_json::Value {
    json!({
        "models": plan.models.iter().map(|m| json!({
            "char_window": m.char_window_size, "type_window": m.type_window_size,
            "char_ngrams": m.char_ngram_model.len(), "type_ngrams": m.type_ngram_model.len(),
            "dict_words": m.dict_model.len(), "tag_models": m.tag_models.len(), "tag_slots": m.n_tags(),
        })).collect::<Vec<_>>(),
        "predictors": plan.preds,
        "clients": plan.clients.iter().map(|c| c.iter().map(|op| {
            let mut o = op.clone();
            match op_strings_mut(&mut o) {
                Some(s) => format!("{}({:?})", op.kind(), s),
                None => format!("{:?}", op),
            }
        }).collect::<Vec<_>>()).collect::<Vec<_>>(),
        "interleave": plan.interleave,
    })
}

/// Runs `start..end` and returns the summary. Violations are minimised and written as replay files.
pub fn worker(property: &str, seed: u64, start: u64, end: u64, progress: &mut dyn FnMut(u64), keep_digests: bool) -> Summary {
    let focus = focus_of(property);
    let mut sum = Summary::default();
    for run in start..end {
        progress(run);
        let plan = plan_for(property, seed, run, false);
        let collect_states = run % 8 == 0;
        sum.runs += 1;
        if run < 3 {
            sum.samples.push(json!({"run": run, "plan": plan_summary(&plan)}));
        }
        match run_plan(&plan, Some(focus), collect_states, None) {
            PlanResult::HarnessError(e) => {
                if sum.harness_errors.len() < 5 {
                    sum.harness_errors.push(format!("run {run}: {e}"));
                }
            }
            PlanResult::Pass(st) => absorb(&mut sum, &st, run, keep_digests),
            PlanResult::Violation(v, st) => {
                absorb(&mut sum, &st, run, keep_digests);
                if sum.violations.len() < 3 {
                    progress(run | MINIMISING);
                    let (min, execs) = minimise(&plan, focus, &v.class, v.client);
                    let (v2, _) = match run_plan(&min, Some(focus), false, None) {
                        PlanResult::Violation(v2, st2) => (v2, st2),
                        _ => (v.clone(), RunStats::default()),
                    };
                    let sig = signature_of(&min, &v2);
                    let path = replay_path(property, seed, run, "");
                    let rf = ReplayFile {
                        property: property.to_string(),
                        engine: "histsim".into(),
                        verif_seed: seed,
                        run,
                        class: v2.class.clone(),
                        signature: sig.clone(),
                        detail: v2.detail.clone(),
                        original_size: plan.n_ops(),
                        minimised_size: min.n_ops(),
                        minimiser_executions: execs,
                        plan: serde_json::to_value(&min).unwrap(),
                        miri_seed: None,
                    };
                    let _ = write_json(&path, &rf);
                    sum.violations.push(ViolationRec {
                        property: property.to_string(),
                        run,
                        class: v2.class,
                        signature: sig,
                        detail: v2.detail,
                        replay: path.display().to_string(),
                    });
                } else {
                    sum.count("violations-beyond-first-3-not-minimised", 1);
                }
            }
        }
    }
    sum
}

fn absorb(sum: &mut Summary, st: &RunStats, run: u64, keep_digests: bool) {
    sum.steps += st.steps;
    sum.count("fault:failed-update", st.failed_updates);
    sum.count("ok-updates", st.ok_updates);
    for (k, v) in &st.probes {
        sum.count(&format!("probe:{k}"), *v);
    }
    for m in &st.err_msgs {
        sum.notes.insert(format!("error-message-seen: {m}"));
    }
    if st.nontrivial {
        sum.fingerprint(st.fingerprint);
    }
    sum.states.extend(st.states.iter().copied());
    sum.transitions.extend(st.transitions.iter().copied());
    sum.digest_sum = sum.digest_sum.wrapping_add(crate::rng::splitmix64(st.digest ^ crate::rng::splitmix64(run)));
    if keep_digests {
        sum.run_digests.push((run, st.digest));
    }
}

/// Re-executes a replay file; returns the class observed (None = passes).
pub fn replay(rf: &ReplayFile) -> Result<Option<(String, String, Vec<String>)>, String> {
    let plan: HistPlan = serde_json::from_value(rf.plan.clone()).map_err(|e| e.to_string())?;
    let mut log = vec![];
    match run_plan(&plan, Some(focus_of(&rf.property)), false, Some(&mut log)) {
        PlanResult::HarnessError(e) => Err(e),
        PlanResult::Pass(_) => Ok(None),
        PlanResult::Violation(v, _) => Ok(Some((v.class, v.detail, log))),
    }
}
