//! C17: KyTea model conversion; truncated files are rejected (`iosim`).

use std::io::BufReader;

use serde::{Deserialize, Serialize};
use serde_json::json;
use vaporetto::{KyteaModel, Model, Predictor, Sentence};

use crate::common::*;
use crate::gen;
use crate::iosim::*;
use crate::kygen::*;
use crate::mmodel::MModel;
use crate::obs::{guarded, last_panic, observe};
use crate::rng::{run_seed, Fnv, Rng};

pub const TAG: u64 = 0xC17;

#[derive(Clone, Debug, PartialEq, Serialize, Deserialize)]
pub enum KySrc {
    Spec(Box<KySpec>),
    File { name: String, bytes: Vec<u8> },
}

#[derive(Clone, Debug, PartialEq, Serialize, Deserialize)]
pub struct C17Plan {
    pub src: KySrc,
    /// (schedule, BufReader capacity; 0 = direct BufRead implementation with `window`-byte fills)
    pub read_scheds: Vec<(Sched, u16, u16)>,
    pub chunk_sched: Sched,
    pub texts: Vec<String>,
    #[serde(default)]
    pub only: Option<(String, usize)>,
    /// process tier: seed of the read/write interposer for the real convert_kytea_model binary
    /// (None = this plan does not run the tool) and truncation points as fractions of the file
    #[serde(default)]
    pub tool_io_seed: Option<u64>,
    #[serde(default)]
    pub tool_truncations: Vec<u16>,
}

impl C17Plan {
    pub fn bytes(&self) -> Vec<u8> {
        match &self.src {
            KySrc::Spec(s) => s.to_bytes(),
            KySrc::File { bytes, .. } => bytes.clone(),
        }
    }
}

pub fn real_files() -> Vec<(String, Vec<u8>)> {
    let mut v = vec![];
    if let Ok(b) = std::fs::read(repo_dir().join("resources/kytea-model.bin")) {
        v.push(("resources/kytea-model.bin".to_string(), b));
    }
    v
}

pub fn plan_for(seed: u64, run: u64, files: &[(String, Vec<u8>)]) -> C17Plan {
    let mut rng = Rng::new(run_seed(seed, TAG, run));
    let src = if (run as usize) < files.len() {
        let (name, bytes) = files[run as usize].clone();
        KySrc::File { name, bytes }
    } else {
        // one file in 400 has a trie with more than 2^16 entries (a few MB; crash points sampled)
        let mut s = gen_spec(&mut rng, run % 400 == 399);
        if rng.chance(1, 6) {
            let n = rng.range(1, 12);
            s.trailing_garbage = (0..n).map(|_| rng.below(256) as u8).collect();
        }
        KySrc::Spec(Box::new(s))
    };
    let read_scheds = (0..4)
        .map(|i| {
            let cap = match i {
                0 => 0,
                1 => 1,
                _ => rng.range(2, 64) as u16,
            };
            (Sched::benign(&mut rng), cap, rng.range(1, 40) as u16)
        })
        .collect();
    let chunk_sched = Sched::benign(&mut rng);
    let mut texts: Vec<String> = (0..3).map(|_| gen::gen_text(&mut rng)).collect();
    texts.push("まぁ社長は火星猫だ".to_string());
    let tool_io_seed = if run % 3 == 0 { Some(rng.next_u64() >> 1) } else { None };
    let tool_truncations = (0..3).map(|_| rng.below(65536) as u16).collect();
    C17Plan { src, read_scheds, chunk_sched, texts, only: None, tool_io_seed, tool_truncations }
}

#[derive(Clone, Debug)]
pub struct C17Violation {
    pub class: String,
    pub signature: String,
    pub detail: String,
    pub scenario: String,
    pub p: usize,
}

#[derive(Default, Clone, Debug)]
pub struct C17Stats {
    pub attempts: u64,
    pub faulted_attempts: u64,
    pub fired: Fired,
    pub probes: Vec<(&'static str, u64)>,
    pub file_hash: u64,
    pub len: usize,
    pub consumed: usize,
    pub accepted_identical_prefixes: u64,
    pub digest: u64,
}

/// Crash points to enumerate for a file of `l` bytes: all of them up to 6000 bytes, otherwise
/// both ends, a window around every multiple of 8192 (capped) and about 300 strided offsets.
pub fn offsets(l: usize) -> Vec<usize> {
    if l <= 6000 {
        return (0..l).collect();
    }
    let stride = (l / 300).max(61) | 1;
    (0..l).filter(|&p| p < 64 || p + 64 >= l || p % stride == 0 || (l < 200_000 && ((p % 8192) < 2 || (p % 8192) > 8190))).collect()
}

fn convert<R: std::io::BufRead>(r: R) -> Result<Vec<u8>, String> {
    let k = KyteaModel::read(r).map_err(|e| format!("read: {e}"))?;
    let m = Model::try_from(k).map_err(|e| format!("convert: {e}"))?;
    m.to_vec().map_err(|e| format!("to_vec: {e}"))
}

fn predictions(model_bytes: &[u8], texts: &[String]) -> Option<Vec<String>> {
    let (m, _) = Model::read_slice(model_bytes).ok()?;
    let p = Predictor::new(m, false).ok()?;
    let mut out = vec![];
    for t in texts {
        let Ok(mut s) = Sentence::from_raw(t.as_str()) else { continue };
        p.predict(&mut s);
        out.push(format!("{:?}", observe(&s, false)));
    }
    Some(out)
}

fn sorted<T: Clone + Ord>(v: &[T]) -> Vec<T> {
    let mut v = v.to_vec();
    v.sort();
    v
}

pub fn execute(plan: &C17Plan) -> (Option<C17Violation>, C17Stats) {
    let mut st = C17Stats::default();
    let mut probes: std::collections::BTreeMap<&'static str, u64> = Default::default();
    let f = plan.bytes();
    let l = f.len();
    st.len = l;
    let mut hh = Fnv::default();
    hh.bytes(&f);
    st.file_hash = hh.finish();
    let mut dg = Fnv::default();
    dg.u64(st.file_hash);
    let pass = Sched::pass();
    let want = |sc: &str, p: usize| -> bool { plan.only.as_ref().map(|o| o.0 == sc && o.1 == p).unwrap_or(true) };
    let want_sc = |sc: &str| -> bool { plan.only.as_ref().map(|o| o.0 == sc).unwrap_or(true) };
    macro_rules! probe {
        ($n:expr) => {
            *probes.entry($n).or_insert(0) += 1
        };
    }
    macro_rules! fail {
        ($class:expr, $sc:expr, $p:expr, $sig:expr, $detail:expr) => {{
            st.probes = probes.into_iter().collect();
            st.digest = dg.finish();
            return (
                Some(C17Violation { class: $class.to_string(), signature: $sig.to_string(), detail: $detail, scenario: $sc.to_string(), p: $p }),
                st,
            );
        }};
    }

    // ---- K1: conversion, fault-free -------------------------------------------------------
    st.attempts += 1;
    let mut consumed = l;
    let k1 = guarded(|| {
        let mut rd = FaultyBufRead::new(FaultyReader::new(&f, &pass), 1 << 20);
        let r = convert(&mut rd);
        consumed = rd.consumed();
        r
    });
    st.consumed = consumed;
    let reference = match k1 {
        None => fail!("K1:panic", "K1", 0, "conversion", last_panic()),
        Some(Err(e)) => fail!("K1:conversion-failed", "K1", 0, "conversion", e),
        Some(Ok(b)) => b,
    };
    dg.bytes(&reference);
    if consumed < l {
        probe!("file-with-unread-trailing-bytes");
    }
    // Where the file really ends. For generated files this is the writer's knowledge (everything
    // but the appended garbage belongs to the model file), NOT what the reader under test happens
    // to consume: a reader that stops decoding early would otherwise define its own unread tail
    // and every truncation inside it would count as "complete". For the repository's sample file
    // (8 trailing bytes of unknown meaning) only the measured value is available.
    let file_end = match &plan.src {
        KySrc::Spec(spec) => l - spec.trailing_garbage.len(),
        _ => consumed,
    };
    if consumed < file_end {
        probe!("reader-stops-before-the-end-of-the-generated-file");
    }
    if l > 6000 {
        probe!("large-file(crash points sampled, not exhaustive)");
    }
    if want_sc("K1") {
        let Some((got, _)) = MModel::from_bytes(&reference) else {
            fail!("K1:converted-model-unreadable", "K1", 0, "conversion", "mirror decoder cannot read the converted model".to_string())
        };
        if let KySrc::Spec(spec) = &plan.src {
            let exp = spec.expected();
            if spec.dict.as_ref().map(|d| d.n_dicts >= 2).unwrap_or(false) {
                probe!("dictionary-with-several-memberships");
            }
            if spec.n_tags > 0 {
                probe!("file-with-tag-slots");
            }
            if sorted(&got.char_ngram_model.iter().map(|d| (d.ngram.clone(), d.weights.clone())).collect::<Vec<_>>())
                != sorted(&exp.char_ngram_model.iter().map(|d| (d.ngram.clone(), d.weights.clone())).collect::<Vec<_>>())
            {
                fail!("K1:char-ngrams-differ", "K1", 0, "conversion", format!("got {:?} expected {:?}", got.char_ngram_model, exp.char_ngram_model));
            }
            if sorted(&got.type_ngram_model.iter().map(|d| (d.ngram.clone(), d.weights.clone())).collect::<Vec<_>>())
                != sorted(&exp.type_ngram_model.iter().map(|d| (d.ngram.clone(), d.weights.clone())).collect::<Vec<_>>())
            {
                fail!("K1:type-ngrams-differ", "K1", 0, "conversion", format!("got {:?} expected {:?}", got.type_ngram_model, exp.type_ngram_model));
            }
            if sorted(&got.dict_model.iter().map(|d| (d.word.clone(), d.weights.clone())).collect::<Vec<_>>())
                != sorted(&exp.dict_model.iter().map(|d| (d.word.clone(), d.weights.clone())).collect::<Vec<_>>())
            {
                fail!("K1:dictionary-differs", "K1", 0, "conversion", format!("got {:?} expected {:?}", got.dict_model, exp.dict_model));
            }
            if got.bias != exp.bias {
                fail!("K1:bias-differs", "K1", 0, "conversion", format!("got {} expected {}", got.bias, exp.bias));
            }
            if (got.char_window_size, got.type_window_size) != (exp.char_window_size, exp.type_window_size) {
                fail!("K1:window-sizes-differ", "K1", 0, "conversion", format!("got {:?}", (got.char_window_size, got.type_window_size)));
            }
            if !got.tag_models.is_empty() {
                fail!("K1:unexpected-tag-models", "K1", 0, "conversion", "converted model carries tag models".to_string());
            }
            // "segments every text as those weights dictate": predictions of the converted model
            // equal those of the expected model
            st.attempts += 2;
            let a = guarded(|| predictions(&reference, &plan.texts));
            let b = guarded(|| predictions(&exp.to_bytes(), &plan.texts));
            match (a, b) {
                (Some(Some(a)), Some(Some(b))) => {
                    if a != b {
                        fail!("K1:prediction-differs", "K1", 0, "conversion", "converted model segments differently from the expected weights".to_string());
                    }
                    probe!("predictions-compared");
                }
                (None, _) => fail!("K1:panic@predict", "K1", 0, "conversion", last_panic()),
                _ => {
                    probe!("predictor-not-buildable-from-expected-model");
                }
            }
        } else {
            // the repository's sample file: the documented segmentation
            let out = guarded(|| {
                let (m, _) = Model::read_slice(&reference).ok()?;
                let p = Predictor::new(m, false).ok()?;
                let mut s = Sentence::from_raw("まぁ社長は火星猫だ").ok()?;
                p.predict(&mut s);
                let mut b = String::new();
                s.write_tokenized_text(&mut b);
                Some(b)
            });
            if out.clone().flatten().as_deref() != Some("まぁ 社長 は 火星 猫 だ") {
                fail!("K1:sample-prediction-differs", "K1", 0, "conversion", format!("{out:?}"));
            }
        }
    }

    // ---- K2: benign read schedules ------------------------------------------------------------
    if want_sc("K2") {
        for (i, (sc, cap, window)) in plan.read_scheds.iter().enumerate() {
            if !want("K2", i) {
                continue;
            }
            st.attempts += 1;
            let mut fired = Fired::default();
            let r = guarded(|| {
                if *cap == 0 {
                    let mut rd = FaultyBufRead::new(FaultyReader::new(&f, sc), usize::from(*window));
                    let r = convert(&mut rd);
                    fired = rd.fired();
                    r
                } else {
                    let mut rd = BufReader::with_capacity(usize::from(*cap), FaultyReader::new(&f, sc));
                    let r = convert(&mut rd);
                    fired = rd.get_ref().fired;
                    r
                }
            });
            st.fired.add(&fired);
            if fired.any() {
                st.faulted_attempts += 1;
            }
            if fired.interrupted > 0 {
                probe!("interrupted-read-fired");
            }
            match r {
                None => fail!("K2:panic", "K2", i, "benign-read", last_panic()),
                Some(Err(e)) => fail!("K2:read-failed-on-benign-schedule", "K2", i, "benign-read", format!("capacity={cap} window={window} schedule={sc:?}: {e}")),
                Some(Ok(b)) => {
                    if b != reference {
                        fail!("K2:model-differs", "K2", i, "benign-read", format!("capacity={cap} window={window} schedule={sc:?}"));
                    }
                }
            }
            dg.u64(fired.calls);
        }
    }

    // ---- K3: truncation at every offset ----------------------------------------------------------
    if want_sc("K3") {
        for p in offsets(l) {
            if !want("K3", p) {
                continue;
            }
            for variant in 0..3u8 {
                st.attempts += 1;
                st.faulted_attempts += 1;
                let mut fired = Fired::default();
                let r = guarded(|| match variant {
                    0 => {
                        fired.eof += 1;
                        convert(&f[..p])
                    }
                    1 => {
                        let mut rd = FaultyBufRead::new(FaultyReader::new(&f, &plan.chunk_sched).truncated(p), 1 + p % 23);
                        let r = convert(&mut rd);
                        fired = rd.fired();
                        r
                    }
                    _ => {
                        let mut rd = BufReader::with_capacity(1 + p % 61, FaultyReader::new(&f, &pass).truncated(p));
                        let r = convert(&mut rd);
                        fired = rd.get_ref().fired;
                        r
                    }
                });
                st.fired.add(&fired);
                let sig = if p < file_end { "inside-consumed-region" } else { "inside-unread-tail" };
                match r {
                    None => fail!("K3:panic", "K3", p, sig, format!("variant {variant}, EOF at byte {p} of {l}: {}", last_panic())),
                    Some(Ok(b)) => {
                        if b != reference {
                            fail!("K3:prefix-accepted-as-different-model", "K3", p, sig, format!("variant {variant}, EOF at byte {p} of {l} (file ends at {file_end}, reader consumes {consumed})"));
                        }
                        if p < file_end {
                            fail!("K3:prefix-accepted", "K3", p, sig, format!("variant {variant}, EOF at byte {p} of {l}: a proper prefix of the {file_end}-byte model file was accepted (the reader consumes {consumed} bytes)"));
                        }
                        st.accepted_identical_prefixes += 1;
                    }
                    Some(Err(e)) => {
                        if p >= file_end {
                            fail!("K3:complete-prefix-rejected", "K3", p, sig, format!("variant {variant}: all {file_end} bytes of the file present but rejected: {e}"));
                        }
                        if p == file_end - 1 {
                            probe!("truncation-at-last-consumed-byte");
                        }
                    }
                }
            }
        }
    }

    // ---- K4: hard read error at every offset ---------------------------------------------------------
    if want_sc("K4") {
        for p in offsets(consumed) {
            if !want("K4", p) {
                continue;
            }
            let k = Kind::ALL[p % Kind::ALL.len()];
            st.attempts += 1;
            st.faulted_attempts += 1;
            let mut fired = Fired::default();
            let r = guarded(|| {
                if p % 2 == 0 {
                    let mut rd = FaultyBufRead::new(FaultyReader::new(&f, &plan.chunk_sched).failing(p, k), 1 + p % 19);
                    let r = convert(&mut rd);
                    fired = rd.fired();
                    r
                } else {
                    let mut rd = BufReader::with_capacity(1 + p % 33, FaultyReader::new(&f, &pass).failing(p, k));
                    let r = convert(&mut rd);
                    fired = rd.get_ref().fired;
                    r
                }
            });
            st.fired.add(&fired);
            match r {
                None => fail!("K4:panic", "K4", p, "read-error", format!("{k:?} at byte {p}: {}", last_panic())),
                Some(Ok(_)) => fail!("K4:ok-despite-read-error", "K4", p, "read-error", format!("reader failed with {k:?} at byte {p} of {consumed} consumed bytes but a model was returned")),
                Some(Err(_)) => {}
            }
        }
    }
    // ---- T: the real convert_kytea_model binary under the syscall interposer ------------------
    if let (Some(io_seed), Ok(tool), true) = (plan.tool_io_seed, std::env::var("VERIF_CONVERT"), want_sc("T") && l <= 8_000_000) {
        let shim = std::env::var("VERIF_SHIM").unwrap_or_default();
        let dir = std::path::PathBuf::from(std::env::var("VERIF_SCRATCH").unwrap_or_else(|_| "/tmp".into())).join(format!("c17-{}", std::process::id()));
        let _ = std::fs::create_dir_all(&dir);
        let run_tool = |bytes: &[u8]| -> Option<(Option<i32>, String, Option<Vec<u8>>)> {
            let inp = dir.join("in.bin");
            let outp = dir.join("out.zst");
            let _ = std::fs::remove_file(&outp);
            std::fs::write(&inp, bytes).ok()?;
            let o = std::process::Command::new(&tool)
                .arg("--model-in")
                .arg(&inp)
                .arg("--model-out")
                .arg(&outp)
                .env("LD_PRELOAD", &shim)
                .env("VERIF_IO_SEED", io_seed.to_string())
                .env_remove("VERIF_IO_TRACE")
                .env("RUST_BACKTRACE", "0")
                .output()
                .ok()?;
            let out = std::fs::read(&outp).ok();
            Some((o.status.code(), String::from_utf8_lossy(&o.stderr).to_string(), out))
        };
        st.attempts += 1;
        match run_tool(&f) {
            None => {
                probe!("convert-tool-could-not-be-started");
            }
            Some((code, stderr, out)) => {
                probe!("convert-tool-runs");
                if stderr.contains("panicked at") {
                    fail!("T1:tool-crash", "T", 0, "convert-tool", stderr.lines().find(|l| l.contains("panicked at")).unwrap_or("").to_string());
                }
                if code != Some(0) {
                    fail!("T1:tool-failed-on-complete-file", "T", 0, "convert-tool", format!("exit {code:?}: {}", stderr.lines().last().unwrap_or("")));
                }
                #[cfg(feature = "ffi")]
                {
                    let decoded = out.and_then(|z| zstd::decode_all(&z[..]).ok());
                    if decoded.as_deref() != Some(&reference[..]) {
                        fail!("T1:tool-output-differs", "T", 0, "convert-tool", "the model written by convert_kytea_model differs from the library conversion".to_string());
                    }
                }
                #[cfg(not(feature = "ffi"))]
                let _ = out;
            }
        }
        // (multi-megabyte files: the complete conversion only)
        for (ti, fr) in plan.tool_truncations.iter().enumerate().take(if l > 200_000 { 1 } else { 3 }) {
            let p = if ti == 0 { file_end - 1 } else { usize::from(*fr) * file_end / 65536 };
            st.attempts += 1;
            st.faulted_attempts += 1;
            if let Some((code, stderr, _)) = run_tool(&f[..p]) {
                if stderr.contains("panicked at") {
                    fail!("T2:tool-crash-on-truncated-file", "T", p, "convert-tool", format!("file cut at {p} of {file_end} bytes: {}", stderr.lines().find(|l| l.contains("panicked at")).unwrap_or("")));
                }
                if code == Some(0) {
                    fail!("T2:tool-accepts-truncated-file", "T", p, "convert-tool", format!("file cut at {p} of {file_end} bytes was converted with exit status 0"));
                }
                probe!("convert-tool-rejects-truncated-file");
            }
        }
        let _ = std::fs::remove_dir_all(&dir);
    }
    dg.u64(st.attempts);
    dg.u64(st.fired.calls);
    st.probes = probes.into_iter().collect();
    st.digest = dg.finish();
    (None, st)
}

fn same_class(plan: &C17Plan, class: &str) -> bool {
    matches!(execute(plan).0, Some(v) if v.class == class)
}

pub fn minimise(plan: &C17Plan, v: &C17Violation) -> (C17Plan, usize) {
    let mut budget = 300usize;
    let start = budget;
    start_minimisation(45);
    let mut best = plan.clone();
    if let KySrc::Spec(_) = best.src {
        macro_rules! shrink_items {
            ($get:expr) => {{
                let get: fn(&mut KySpec) -> Option<&mut Vec<_>> = $get;
                let mut probe = best.clone();
                let items = if let KySrc::Spec(s) = &mut probe.src { get(s).map(|v| v.clone()) } else { None };
                if let Some(items) = items {
                    let base = best.clone();
                    let kept = ddmin(items, &mut budget, |c| {
                        if c.is_empty() {
                            return false;
                        }
                        let mut cand = base.clone();
                        if let KySrc::Spec(s) = &mut cand.src {
                            if let Some(v) = get(s) {
                                *v = c.to_vec();
                            }
                        }
                        same_class(&cand, &v.class)
                    });
                    if let KySrc::Spec(s) = &mut best.src {
                        if let Some(v) = get(s) {
                            *v = kept;
                        }
                    }
                }
            }};
        }
        shrink_items!(|s| s.wordseg.lookup.as_mut().and_then(|l| l.char_dict.as_mut()).map(|d| &mut d.items));
        shrink_items!(|s| s.wordseg.lookup.as_mut().and_then(|l| l.type_dict.as_mut()).map(|d| &mut d.items));
        shrink_items!(|s| s.dict.as_mut().map(|d| &mut d.items));
    }
    if let (Some(v2), _) = execute(&best) {
        let mut cand = best.clone();
        cand.only = Some((v2.scenario.clone(), v2.p));
        budget = budget.saturating_sub(1);
        if same_class(&cand, &v.class) {
            best = cand;
        }
    }
    (best, start - budget)
}

pub fn plan_summary(plan: &C17Plan) -> serde_json::Value {
    let b = plan.bytes();
    json!({
        "file": match &plan.src {
            KySrc::Spec(s) => json!({"generated": {
                "char_w": s.char_w, "type_w": s.type_w, "dict_n": s.dict_n, "n_tags": s.n_tags,
                "char_ngrams": s.wordseg.lookup.as_ref().and_then(|l| l.char_dict.as_ref()).map(|d| d.items.iter().map(|i| i.0.clone()).collect::<Vec<_>>()),
                "type_ngrams": s.wordseg.lookup.as_ref().and_then(|l| l.type_dict.as_ref()).map(|d| d.items.iter().map(|i| i.0.clone()).collect::<Vec<_>>()),
                "dictionaries": s.dict.as_ref().map(|d| d.n_dicts),
                "dict_words": s.dict.as_ref().map(|d| d.items.iter().map(|i| (i.0.clone(), i.1.in_dict)).collect::<Vec<_>>()),
                "trailing_garbage": s.trailing_garbage.len(),
            }}),
            KySrc::File { name, .. } => json!({"file": name}),
        },
        "len": b.len(),
        "scenarios": "K1 conversion vs generator ground truth; K2 benign read schedules; K3 truncation at every offset (slice / chunked BufRead / BufReader); K4 read error at every consumed offset",
        "read_schedules": plan.read_scheds,
    })
}

pub fn worker(seed: u64, start: u64, end: u64, progress: &mut dyn FnMut(u64), keep_digests: bool) -> Summary {
    let files = real_files();
    let mut sum = Summary::default();
    if files.is_empty() {
        sum.harness_errors.push("resources/kytea-model.bin not found under $VERIF_REPO".into());
    }
    for run in start..end {
        progress(run);
        let plan = plan_for(seed, run, &files);
        sum.runs += 1;
        if run < 3 {
            sum.samples.push(json!({"run": run, "plan": plan_summary(&plan)}));
        }
        let (v, st) = execute(&plan);
        sum.steps += st.attempts;
        sum.count("attempts(read+convert)", st.attempts);
        sum.count("fault:short-transfer", st.fired.short);
        sum.count("fault:interrupted", st.fired.interrupted);
        sum.count("fault:eof-truncation", st.fired.eof);
        sum.count("fault:hard-error", st.fired.hard_error);
        sum.count("io-calls", st.fired.calls);
        sum.count("file-bytes-total", st.len as u64);
        sum.count("accepted_identical_prefixes(cut only unread trailing bytes)", st.accepted_identical_prefixes);
        for (k, n) in &st.probes {
            sum.count(&format!("probe:{k}"), *n);
        }
        if matches!(plan.src, KySrc::File { .. }) {
            sum.notes.insert(format!("real file: {} bytes, reader consumes {}", st.len, st.consumed));
        }
        sum.weighted_distinct.entry(st.file_hash).or_insert(st.faulted_attempts);
        sum.digest_sum = sum.digest_sum.wrapping_add(crate::rng::splitmix64(st.digest ^ crate::rng::splitmix64(run)));
        if keep_digests {
            sum.run_digests.push((run, st.digest));
        }
        if let Some(v) = v {
            if sum.violations.len() < 3 {
                progress(run | MINIMISING);
                let (min, execs) = minimise(&plan, &v);
                let v2 = execute(&min).0.unwrap_or(v.clone());
                let path = replay_path("C17", seed, run, "");
                let rf = ReplayFile {
                    property: "C17".into(),
                    engine: "iosim-c17".into(),
                    verif_seed: seed,
                    run,
                    class: v2.class.clone(),
                    signature: v2.signature.clone(),
                    detail: v2.detail.clone(),
                    original_size: plan.bytes().len(),
                    minimised_size: min.bytes().len(),
                    minimiser_executions: execs,
                    plan: serde_json::to_value(&min).unwrap(),
                    miri_seed: None,
                };
                let _ = write_json(&path, &rf);
                sum.violations.push(ViolationRec {
                    property: "C17".into(),
                    run,
                    class: v2.class,
                    signature: v2.signature,
                    detail: v2.detail,
                    replay: path.display().to_string(),
                });
            } else {
                sum.count("violations-beyond-first-3-not-minimised", 1);
            }
        }
    }
    sum
}

pub fn replay(rf: &ReplayFile) -> Result<Option<(String, String, Vec<String>)>, String> {
    let plan: C17Plan = serde_json::from_value(rf.plan.clone()).map_err(|e| e.to_string())?;
    let (v, st) = execute(&plan);
    let log = vec![format!("file of {} bytes ({} consumed), {} attempts, faults fired: {:?}", st.len, st.consumed, st.attempts, st.fired)];
    Ok(v.map(|v| (v.class, v.detail, log)))
}
