//! Independent reference parsers for the two annotation formats, written from the documented
//! rules (doc comments of `Sentence::from_tokenized` / `from_partial_annotation`), not from the
//! library's code. Used as ground truth for *every* accepted input, not only for the exact
//! renderings the generator produces. Only content is compared (text, labels, tags): which
//! inputs are rejected is not part of the property, so a verdict difference is counted, not
//! flagged.

use crate::histsim::Expect;

/// Tokenized format: ' ' separates tokens, '/' starts a tag of the token, '\\' escapes the next
/// character. Tags belong to the last character of their token.
pub fn tokenized(input: &str) -> Option<Expect> {
    if input.is_empty() {
        return None;
    }
    let mut chars: Vec<char> = vec![];
    let mut labels: Vec<u8> = vec![];
    let mut tags: Vec<Vec<Option<String>>> = vec![];
    let mut cur_tag: Option<String> = None;
    let mut after_space = false;
    let mut esc = false;
    let close = |cur_tag: &mut Option<String>, tags: &mut Vec<Vec<Option<String>>>| {
        if let Some(t) = cur_tag.take() {
            tags.last_mut().unwrap().push(if t.is_empty() { None } else { Some(t) });
        }
    };
    for c in input.chars() {
        if !esc && c == '\\' {
            esc = true;
            continue;
        }
        if !esc && c == ' ' {
            if chars.is_empty() || after_space {
                return None;
            }
            close(&mut cur_tag, &mut tags);
            after_space = true;
            continue;
        }
        if !esc && c == '/' {
            if chars.is_empty() || after_space {
                return None;
            }
            close(&mut cur_tag, &mut tags);
            cur_tag = Some(String::new());
            continue;
        }
        esc = false;
        if c == '\0' {
            return None;
        }
        if let Some(t) = cur_tag.as_mut() {
            t.push(c);
            continue;
        }
        if !chars.is_empty() {
            labels.push(u8::from(after_space));
        }
        after_space = false;
        chars.push(c);
        tags.push(vec![]);
    }
    if chars.is_empty() || after_space {
        return None;
    }
    close(&mut cur_tag, &mut tags);
    Some(Expect { raw: chars.into_iter().collect(), labels, tags })
}

/// Partial annotation: character, then annotation (tags introduced by '/', with '\\' escaping
/// inside tags), then one boundary symbol (' ' unknown, '-' no boundary, '|' boundary), ...
pub fn partial(input: &str) -> Option<Expect> {
    if input.is_empty() {
        return None;
    }
    let mut chars: Vec<char> = vec![];
    let mut labels: Vec<u8> = vec![];
    let mut tags: Vec<Vec<Option<String>>> = vec![];
    let mut cur_tag: Option<String> = None;
    let mut want_char = true;
    let mut esc = false;
    for c in input.chars() {
        if want_char {
            if c == '\0' {
                return None;
            }
            chars.push(c);
            tags.push(vec![]);
            want_char = false;
            continue;
        }
        if !esc {
            match c {
                '\\' => {
                    esc = true;
                    continue;
                }
                ' ' | '-' | '|' => {
                    if let Some(t) = cur_tag.take() {
                        tags.last_mut().unwrap().push(if t.is_empty() { None } else { Some(t) });
                    }
                    labels.push(match c {
                        '-' => 0,
                        '|' => 1,
                        _ => 2,
                    });
                    want_char = true;
                    continue;
                }
                '/' => {
                    if let Some(t) = cur_tag.take() {
                        tags.last_mut().unwrap().push(if t.is_empty() { None } else { Some(t) });
                    }
                    cur_tag = Some(String::new());
                    continue;
                }
                _ => {}
            }
        }
        esc = false;
        match cur_tag.as_mut() {
            Some(t) => t.push(c),
            None => return None,
        }
    }
    if want_char {
        return None;
    }
    if let Some(t) = cur_tag.take() {
        tags.last_mut().unwrap().push(if t.is_empty() { None } else { Some(t) });
    }
    Some(Expect { raw: chars.into_iter().collect(), labels, tags })
}
