//! Writer for the KyTea binary model layout that `vaporetto::KyteaModel::read` consumes,
//! driven by a specification whose content (the ground truth of the conversion) is known.

use serde::{Deserialize, Serialize};

use crate::gen;
use crate::mmodel::{MModel, MNgram, MWord};
use crate::rng::Rng;

#[derive(Clone, Debug, PartialEq, Serialize, Deserialize)]
pub struct KyLinear {
    /// n_classes == 0 encodes "no model"
    pub labels: Vec<i32>,
    pub solver_type: u8,
    pub bias: bool,
    pub multiplier: f64,
    /// None = feature lookup inactive
    pub lookup: Option<Box<KyLookup>>,
}

#[derive(Clone, Debug, PartialEq, Serialize, Deserialize)]
pub struct KyLookup {
    pub char_dict: Option<KyTrie<Vec<i16>>>,
    pub type_dict: Option<KyTrie<Vec<i16>>>,
    pub self_dict: Option<KyTrie<Vec<i16>>>,
    pub dict_vec: Vec<i16>,
    pub biases: Vec<i16>,
    pub tag_dict_vec: Vec<i16>,
    pub tag_unk_vec: Vec<i16>,
}

/// A dictionary given by its entries; the writer builds the trie states.
#[derive(Clone, Debug, PartialEq, Serialize, Deserialize)]
pub struct KyTrie<T> {
    pub n_dicts: u8,
    pub items: Vec<(String, T)>,
    /// write failure links / suffix outputs like a real Aho-Corasick automaton would
    pub with_suffix_outputs: bool,
}

#[derive(Clone, Debug, PartialEq, Serialize, Deserialize)]
pub struct KyTagEntry {
    /// per tag slot: (tag, in-dictionary mask)
    pub tags: Vec<Vec<(String, u8)>>,
    pub in_dict: u8,
    pub tag_models: Vec<Option<KyLinear>>,
}

#[derive(Clone, Debug, PartialEq, Serialize, Deserialize)]
pub struct KyProbEntry {
    pub tags: Vec<Vec<(String, f64)>>,
}

#[derive(Clone, Debug, PartialEq, Serialize, Deserialize)]
pub struct KySpec {
    pub model_tag: String,
    pub do_ws: bool,
    pub do_tags: bool,
    pub n_tags: u32,
    pub char_w: u8,
    pub char_n: u8,
    pub type_w: u8,
    pub type_n: u8,
    pub dict_n: u8,
    pub bias: bool,
    pub epsilon: f64,
    pub solver_type: u8,
    /// without the terminating NUL
    pub char_map: Vec<char>,
    pub wordseg: KyLinear,
    pub global_tags: Vec<Vec<String>>,
    pub global_models: Vec<Option<KyLinear>>,
    pub dict: Option<KyTrie<KyTagEntry>>,
    pub subword_dict: Option<KyTrie<KyProbEntry>>,
    pub trailing_garbage: Vec<u8>,
}

struct W<'a> {
    out: Vec<u8>,
    map: &'a [char],
}

impl W<'_> {
    fn u8(&mut self, x: u8) {
        self.out.push(x);
    }
    fn u16(&mut self, x: u16) {
        self.out.extend_from_slice(&x.to_le_bytes());
    }
    fn u32(&mut self, x: u32) {
        self.out.extend_from_slice(&x.to_le_bytes());
    }
    fn i32(&mut self, x: i32) {
        self.out.extend_from_slice(&x.to_le_bytes());
    }
    fn i16(&mut self, x: i16) {
        self.out.extend_from_slice(&x.to_le_bytes());
    }
    fn f64(&mut self, x: f64) {
        self.out.extend_from_slice(&x.to_le_bytes());
    }
    fn chr(&mut self, c: char) {
        let idx = self.map.iter().position(|&m| m == c).expect("character not in map");
        self.u16(u16::try_from(idx + 1).unwrap());
    }
    fn string(&mut self, s: &str) {
        self.u32(s.chars().count() as u32);
        for c in s.chars() {
            self.chr(c);
        }
    }
    fn vec_i16(&mut self, v: &[i16]) {
        self.u32(v.len() as u32);
        for &x in v {
            self.i16(x);
        }
    }
}

struct TState {
    gotos: Vec<(char, usize)>,
    output: Option<usize>,
    depth_word: Vec<char>,
}

fn write_trie<T>(w: &mut W, t: &Option<KyTrie<T>>, mut write_entry: impl FnMut(&mut W, &str, &T)) {
    let Some(t) = t else {
        w.u8(0);
        w.u32(0);
        return;
    };
    w.u8(t.n_dicts);
    // build trie
    let mut states = vec![TState { gotos: vec![], output: None, depth_word: vec![] }];
    for (ei, (key, _)) in t.items.iter().enumerate() {
        let mut cur = 0;
        for c in key.chars() {
            cur = match states[cur].gotos.iter().find(|g| g.0 == c) {
                Some(g) => g.1,
                None => {
                    let mut dw = states[cur].depth_word.clone();
                    dw.push(c);
                    states.push(TState { gotos: vec![], output: None, depth_word: dw });
                    let n = states.len() - 1;
                    states[cur].gotos.push((c, n));
                    n
                }
            };
        }
        states[cur].output = Some(ei);
    }
    w.u32(states.len() as u32);
    for (si, s) in states.iter().enumerate() {
        // failure link: longest proper suffix that is a state (only when asked to look real)
        let mut failure = 0usize;
        let mut extra_outputs = vec![];
        if t.with_suffix_outputs && si != 0 {
            for start in 1..s.depth_word.len() {
                let suf = &s.depth_word[start..];
                if let Some(idx) = states.iter().position(|x| x.depth_word == suf) {
                    if failure == 0 {
                        failure = idx;
                    }
                    if let Some(o) = states[idx].output {
                        extra_outputs.push(o);
                    }
                }
            }
        }
        w.u32(failure as u32);
        w.u32(s.gotos.len() as u32);
        // written in insertion order: the reader sorts them itself
        for &(c, n) in &s.gotos {
            w.chr(c);
            w.u32(n as u32);
        }
        match s.output {
            Some(o) => {
                w.u32(1 + extra_outputs.len() as u32);
                w.u32(o as u32);
                for e in &extra_outputs {
                    w.u32(*e as u32);
                }
                w.u8(1);
            }
            None => {
                // a state without an own entry is not a branch; it may still list suffix outputs
                w.u32(extra_outputs.len() as u32);
                for e in &extra_outputs {
                    w.u32(*e as u32);
                }
                w.u8(0);
            }
        }
    }
    w.u32(t.items.len() as u32);
    for (key, e) in &t.items {
        write_entry(w, key, e);
    }
}

fn write_linear(w: &mut W, m: &Option<KyLinear>) {
    let Some(m) = m else {
        w.u32(0);
        return;
    };
    if m.labels.is_empty() {
        w.u32(0);
        return;
    }
    w.u32(m.labels.len() as u32);
    w.u8(m.solver_type);
    for &l in &m.labels {
        w.i32(l);
    }
    w.u8(u8::from(m.bias));
    w.f64(m.multiplier);
    match &m.lookup {
        None => w.u8(0),
        Some(l) => {
            w.u8(1);
            write_trie(w, &l.char_dict, |w, _, v| w.vec_i16(v));
            write_trie(w, &l.type_dict, |w, _, v| w.vec_i16(v));
            write_trie(w, &l.self_dict, |w, _, v| w.vec_i16(v));
            w.vec_i16(&l.dict_vec);
            w.vec_i16(&l.biases);
            w.vec_i16(&l.tag_dict_vec);
            w.vec_i16(&l.tag_unk_vec);
        }
    }
}

impl KySpec {
    pub fn to_bytes(&self) -> Vec<u8> {
        let mut map: Vec<char> = self.char_map.clone();
        map.push('\0');
        let mut w = W { out: vec![], map: &map };
        w.out.extend_from_slice(self.model_tag.as_bytes());
        w.out.push(b'\n');
        w.u8(u8::from(self.do_ws));
        w.u8(u8::from(self.do_tags));
        w.u32(self.n_tags);
        w.u8(self.char_w);
        w.u8(self.char_n);
        w.u8(self.type_w);
        w.u8(self.type_n);
        w.u8(self.dict_n);
        w.u8(u8::from(self.bias));
        w.f64(self.epsilon);
        w.u8(self.solver_type);
        let s: String = self.char_map.iter().collect();
        w.out.extend_from_slice(s.as_bytes());
        w.out.push(0);
        write_linear(&mut w, &Some(self.wordseg.clone()));
        for i in 0..self.n_tags as usize {
            let tags = &self.global_tags[i];
            w.u32(tags.len() as u32);
            for t in tags {
                w.string(t);
            }
            write_linear(&mut w, &self.global_models[i]);
        }
        let n_tags = self.n_tags as usize;
        write_trie(&mut w, &self.dict, |w, key, e: &KyTagEntry| {
            w.string(key);
            for i in 0..n_tags {
                w.u32(e.tags[i].len() as u32);
                for (t, m) in &e.tags[i] {
                    w.string(t);
                    w.u8(*m);
                }
            }
            w.u8(e.in_dict);
            for i in 0..n_tags {
                write_linear(w, &e.tag_models[i]);
            }
        });
        write_trie(&mut w, &self.subword_dict, |w, key, e: &KyProbEntry| {
            w.string(key);
            for i in 0..n_tags {
                w.u32(e.tags[i].len() as u32);
                for (t, p) in &e.tags[i] {
                    w.string(t);
                    w.f64(*p);
                }
            }
        });
        w.out.extend_from_slice(&self.trailing_garbage);
        w.out
    }

    /// What the conversion must produce (n-gram / dictionary order is not promised).
    pub fn expected(&self) -> MModel {
        let l = self.wordseg.lookup.as_ref().expect("lookup");
        let cw = usize::from(self.char_w);
        let tw = usize::from(self.type_w);
        let mut m = MModel {
            char_ngram_model: vec![],
            type_ngram_model: vec![],
            dict_model: vec![],
            bias: i32::from(l.biases[0]),
            char_window_size: self.char_w,
            type_window_size: self.type_w,
            tag_models: vec![],
        };
        for (k, v) in &l.char_dict.as_ref().expect("char dict").items {
            let n = k.chars().count();
            m.char_ngram_model.push(MNgram { ngram: k.clone(), weights: v[..2 * cw - n + 1].iter().map(|&x| i32::from(x)).collect() });
        }
        for (k, v) in &l.type_dict.as_ref().expect("type dict").items {
            let n = k.chars().count();
            let g: Vec<u8> = k
                .chars()
                .map(|c| match c {
                    'D' => 1,
                    'R' => 2,
                    'H' => 3,
                    'T' => 4,
                    'K' => 5,
                    _ => 6,
                })
                .collect();
            m.type_ngram_model.push(MNgram { ngram: g, weights: v[..2 * tw - n + 1].iter().map(|&x| i32::from(x)).collect() });
        }
        if let Some(d) = &self.dict {
            let dn = usize::from(self.dict_n);
            for (k, e) in &d.items {
                let n = k.chars().count();
                let idx = n.min(dn) - 1;
                let (mut left, mut inside, mut right) = (0i32, 0i32, 0i32);
                for j in 0..usize::from(d.n_dicts) {
                    if (e.in_dict >> j) & 1 == 1 {
                        let off = 3 * dn * j + 3 * idx;
                        left += i32::from(l.dict_vec[off]);
                        inside += i32::from(l.dict_vec[off + 1]);
                        right += i32::from(l.dict_vec[off + 2]);
                    }
                }
                let mut weights = vec![inside; n + 1];
                weights[0] = left;
                weights[n] = right;
                m.dict_model.push(MWord { word: k.clone(), weights, comment: String::new() });
            }
        }
        m
    }
}

fn gen_i16s(rng: &mut Rng, n: usize) -> Vec<i16> {
    (0..n)
        .map(|_| match rng.below(8) {
            0 => 0,
            1 => rng.irange(-32768, 32767) as i16,
            _ => rng.irange(-300, 300) as i16,
        })
        .collect()
}

fn gen_small_linear(rng: &mut Rng) -> Option<KyLinear> {
    match rng.below(4) {
        0 | 1 => None,
        2 => Some(KyLinear { labels: vec![1, -1], solver_type: rng.below(8) as u8, bias: rng.chance(1, 2), multiplier: 1.5, lookup: None }),
        _ => Some(KyLinear {
            labels: (0..rng.range(1, 3)).map(|i| i as i32).collect(),
            solver_type: 1,
            bias: true,
            multiplier: 0.25,
            lookup: Some(Box::new(KyLookup {
                char_dict: None,
                type_dict: None,
                self_dict: None,
                dict_vec: gen_i16s(rng, 2),
                biases: gen_i16s(rng, 1),
                tag_dict_vec: vec![],
                tag_unk_vec: gen_i16s(rng, 1),
            })),
        }),
    }
}

pub fn gen_spec(rng: &mut Rng, huge: bool) -> KySpec {
    let char_w = if huge { rng.range(2, 4) as u8 } else { rng.range(1, 4) as u8 };
    let type_w = rng.range(1, 4) as u8;
    let cw = usize::from(char_w);
    let tw = usize::from(type_w);
    let n_tags = if rng.chance(1, 12) { rng.range(4, 6) as u32 } else { rng.range(0, 3) as u32 };
    // character map: type letters, the core alphabet, some extras, tag characters
    let mut char_map: Vec<char> = vec!['K', 'T', 'H', 'R', 'D', 'O'];
    for &c in gen::CORE.iter().chain(gen::EXTRA.iter()).chain(gen::NORMALISED.iter()).chain(gen::DASHES.iter()) {
        if c != '\0' && !char_map.contains(&c) {
            char_map.push(c);
        }
    }
    for s in gen::TAG_VOCAB {
        for c in s.chars() {
            if !char_map.contains(&c) {
                char_map.push(c);
            }
        }
    }
    // shuffle lightly so indices differ between files
    for i in (1..char_map.len()).rev() {
        if rng.chance(1, 2) {
            let j = rng.below(i + 1);
            char_map.swap(i, j);
        }
    }
    let with_suffix = rng.chance(1, 2);
    // char n-grams
    let mut items: Vec<(String, Vec<i16>)> = vec![];
    for _ in 0..rng.range(1, 10) {
        let maxn = if rng.chance(1, 5) { 2 * cw } else { (2 * cw).min(4) };
        let n = rng.range(1, maxn);
        let k = gen::gen_pattern(rng, n);
        if items.iter().any(|(x, _)| *x == k) {
            continue;
        }
        let extra = if rng.chance(1, 3) { rng.range(1, 3) } else { 0 };
        items.push((k, gen_i16s(rng, 2 * cw - n + 1 + extra)));
    }
    if huge {
        // a trie with more than 2^16 entries, as real KyTea models have: every 3-character key
        // over the first 42 map characters (74 088 keys)
        let alpha: Vec<char> = char_map.iter().copied().filter(|c| !c.is_control()).take(42).collect();
        let extra = rng.range(0, 1);
        for &a in &alpha {
            for &b in &alpha {
                for &c in &alpha {
                    let k: String = [a, b, c].iter().collect();
                    let seed = (a as u32).wrapping_mul(31).wrapping_add(b as u32).wrapping_mul(31).wrapping_add(c as u32);
                    let w: Vec<i16> = (0..2 * cw - 3 + 1 + extra).map(|i| ((seed.wrapping_mul(2654435761).wrapping_add(i as u32 * 97) >> 20) as i16) % 50).collect();
                    items.push((k, w));
                }
            }
        }
        let mut seen = std::collections::BTreeSet::new();
        items.retain(|(k, _)| seen.insert(k.clone()));
    }
    let char_dict = KyTrie { n_dicts: 0, items, with_suffix_outputs: with_suffix && !huge };
    let mut items: Vec<(String, Vec<i16>)> = vec![];
    for _ in 0..rng.range(1, 10) {
        let maxn = if rng.chance(1, 5) { 2 * tw } else { (2 * tw).min(4) };
        let n = rng.range(1, maxn);
        let k: String = (0..n).map(|_| *rng.pick(&['D', 'R', 'H', 'T', 'K', 'O'])).collect();
        if items.iter().any(|(x, _)| *x == k) {
            continue;
        }
        let extra = if rng.chance(1, 3) { rng.range(1, 3) } else { 0 };
        items.push((k, gen_i16s(rng, 2 * tw - n + 1 + extra)));
    }
    let type_dict = KyTrie { n_dicts: 0, items, with_suffix_outputs: with_suffix };
    let self_dict = if rng.chance(1, 4) {
        Some(KyTrie { n_dicts: 0, items: vec![(gen::gen_pattern(rng, 1), gen_i16s(rng, 2))], with_suffix_outputs: false })
    } else {
        None
    };
    let n_dicts = rng.range(0, 8) as u8;
    // usually KyTea's small bucket counts; sometimes far more buckets than any word has characters
    let dict_n = if rng.chance(1, 4) { rng.range(6, 40) as u8 } else { rng.range(1, 5) as u8 };
    let dict_vec = gen_i16s(rng, 3 * usize::from(dict_n) * usize::from(n_dicts));
    let lookup = KyLookup {
        char_dict: Some(char_dict),
        type_dict: Some(type_dict),
        self_dict,
        dict_vec,
        biases: { let n_ = rng.range(1, 2); gen_i16s(rng, n_) },
        tag_dict_vec: { let n_ = rng.range(0, 3); gen_i16s(rng, n_) },
        tag_unk_vec: { let n_ = rng.range(0, 3); gen_i16s(rng, n_) },
    };
    let wordseg = KyLinear {
        labels: vec![1, -1],
        solver_type: rng.below(8) as u8,
        bias: rng.chance(1, 2),
        multiplier: 1.0 + rng.below(100) as f64 / 7.0,
        lookup: Some(Box::new(lookup)),
    };
    let mut global_tags = vec![];
    let mut global_models = vec![];
    for _ in 0..n_tags {
        global_tags.push((0..rng.range(0, 3)).map(|_| gen::gen_tag(rng)).filter(|t| t.chars().all(|c| char_map.contains(&c))).collect());
        global_models.push(gen_small_linear(rng));
    }
    let dict = if n_dicts > 0 && rng.chance(5, 6) {
        let mut items = vec![];
        for _ in 0..rng.range(1, 8) {
            let n = match rng.below(20) {
                0..=2 => rng.range(7, 20),
                3 | 4 => rng.range(21, 45),
                _ => rng.range(1, 6),
            };
            let k = gen::gen_pattern(rng, n);
            if items.iter().any(|(x, _): &(String, KyTagEntry)| *x == k) {
                continue;
            }
            let mut tags = vec![];
            let mut tag_models = vec![];
            for _ in 0..n_tags {
                tags.push(
                    (0..rng.range(0, 2))
                        .map(|_| (gen::gen_tag(rng), rng.below(256) as u8))
                        .filter(|(t, _)| t.chars().all(|c| char_map.contains(&c)))
                        .collect(),
                );
                tag_models.push(gen_small_linear(rng));
            }
            let in_dict = match rng.below(4) {
                0 => 0,
                1 => 0xff,
                _ => rng.below(256) as u8,
            };
            items.push((k, KyTagEntry { tags, in_dict, tag_models }));
        }
        Some(KyTrie { n_dicts, items, with_suffix_outputs: with_suffix })
    } else {
        None
    };
    let subword_dict = if rng.chance(1, 4) {
        let mut items = vec![];
        for _ in 0..rng.range(1, 3) {
            let k = { let n_ = rng.range(1, 2); gen::gen_pattern(rng, n_) };
            if items.iter().any(|(x, _): &(String, KyProbEntry)| *x == k) {
                continue;
            }
            let tags = (0..n_tags).map(|_| (0..rng.range(0, 2)).map(|_| ("N".to_string(), 0.5)).collect()).collect();
            items.push((k, KyProbEntry { tags }));
        }
        Some(KyTrie { n_dicts: 1, items, with_suffix_outputs: false })
    } else {
        None
    };
    let model_tag = match rng.below(4) {
        0 => "KyTea 0.4.0 B utf8".to_string(),
        1 => String::new(),
        2 => "KyTea 0.4.7 B utf8 日本語".to_string(),
        _ => "KyTea 0.3.0 B".to_string(),
    };
    KySpec {
        model_tag,
        do_ws: true,
        do_tags: n_tags > 0,
        n_tags,
        char_w,
        char_n: rng.range(1, 4) as u8,
        type_w,
        type_n: rng.range(1, 4) as u8,
        dict_n,
        bias: rng.chance(1, 2),
        epsilon: if rng.chance(1, 2) { 1.0e300 } else { 0.001 },
        solver_type: rng.below(8) as u8,
        char_map,
        wordseg,
        global_tags,
        global_models,
        dict,
        subword_dict,
        trailing_garbage: vec![],
    }
}
