#!/bin/bash
# Confirms a seeded change produced by a sub-agent and files it under /verif/seeded/<name>/.
#   tools/confirm_seed.sh <agent-worktree> <name> <property>
# Steps (all in a scratch worktree of /repo outside /repo and /verif):
#   1. demo on the original code   -> must pass
#   2. patch applies; unit tests of the workspace still pass
#   3. demo with the patch         -> must fail
# Prints one line per step; writes meta.json (without the check results, which sens.sh --seeded adds).
set -u
SUB="${4:-}"; SRC="$1/SEED_OUT${SUB:+/$SUB}"; NAME="$2"; PROP="$3"
DEST=/verif/seeded/$NAME
W=/tmp/vw-confirm; TT=/tmp/vw-confirm-target
[ -f "$SRC/patch.diff" ] || { echo "no patch.diff in $SRC"; exit 2; }
mkdir -p "$DEST"; rm -rf "$DEST/demo"; cp -r "$SRC/patch.diff" "$SRC/demo" "$DEST/"; cp "$SRC/notes.md" "$DEST/notes.md" 2>/dev/null
git -C /repo worktree remove --force "$W" >/dev/null 2>&1; rm -rf "$W"; git -C /repo worktree prune
git -C /repo worktree add --detach "$W" HEAD >/dev/null 2>&1 || { echo "cannot create worktree"; exit 2; }
export CARGO_NET_OFFLINE=true; [ -z "${LOCAL_TARGET:-}" ] && export CARGO_TARGET_DIR="$TT"
rundemo() {
  mkdir -p "$W/vaporetto/tests" "$W/predict/tests" "$W/evaluate/tests" "$W/vaporetto_rules/tests"
  if [ -n "$SUB" ]; then
    # self-contained layout: run.sh finds its files through dirname "$0", cwd = worktree root
    rm -rf "$W/SEED_DEMO"; cp -r "$DEST/demo" "$W/SEED_DEMO"
    ( cd "$W" && bash SEED_DEMO/run.sh ) > "$DEST/.demo.log" 2>&1
  else
    mkdir -p "$W/SEED_OUT"; rm -rf "$W/SEED_OUT/demo"; cp -r "$DEST/demo" "$W/SEED_OUT/demo"; sed -i "s#$1#$W#g" "$W/SEED_OUT/demo/"*.sh 2>/dev/null
    ( cd "$W" && bash SEED_OUT/demo/run.sh ) > "$DEST/.demo.log" 2>&1
  fi
}
rundemo "$1"; rc_orig=$?
echo "demo on original code: exit=$rc_orig (want 0)"
if ! git -C "$W" apply "$DEST/patch.diff"; then echo "PATCH DOES NOT APPLY"; exit 1; fi
( cd "$W" && cargo test --workspace --lib --bins --offline ) > "$DEST/.tests.log" 2>&1; rc_tests=$?
npass=$(grep -E '^test result: ok' "$DEST/.tests.log" | sed -e 's/.*ok\. \([0-9]*\) passed.*/\1/' | paste -sd+ | bc)
echo "unit tests with the patch: exit=$rc_tests passed=$npass (want exit 0, 94 passed)"
rundemo "$1"; rc_mut=$?
echo "demo with the patch: exit=$rc_mut (want != 0)"
what=$(grep -iE -m1 'manifest|needs|trigger' "$DEST/notes.md" 2>/dev/null | cut -c1-300)
jq -n --arg p "$PROP" --arg name "$NAME" --argjson o $rc_orig --argjson t $rc_tests --arg np "${npass:-0}" --argjson m $rc_mut --arg base "$(git -C /repo rev-parse --short HEAD)" \
  '{property:$p, name:$name, base_commit:$base, needs_to_manifest:"see notes.md", confirmed:{demo_on_original_exit:$o, unit_tests_with_patch_exit:$t, unit_tests_passed:$np, demo_with_patch_exit:$m}, ran:["bash SEED_OUT/demo/run.sh on a clean worktree","git apply patch.diff","cargo test --workspace --lib --bins --offline","bash SEED_OUT/demo/run.sh with the patch"]}' > "$DEST/meta.json"
rm -f "$DEST/.demo.log" "$DEST/.tests.log"
git -C /repo worktree remove --force "$W" >/dev/null 2>&1; rm -rf "$W"; git -C /repo worktree prune
[ $rc_orig = 0 ] && [ $rc_tests = 0 ] && [ $rc_mut != 0 ] && echo "CONFIRMED $NAME" || echo "NOT CONFIRMED $NAME"
