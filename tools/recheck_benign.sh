#!/bin/bash
# Re-runs the quick checks against every semantics-preserving rewrite under /verif/benign: all must exit 0.
set -u
W=/tmp/vw-benign
out=/verif/benign/results.tsv; : > "$out"
for d in /verif/benign/*/; do
  n=$(basename "$d"); [ -f "$d/patch.diff" ] || continue
  props=$(jq -r '[.checks[].property] | join(" ")' "$d/meta.json")
  git -C /repo worktree remove --force "$W" >/dev/null 2>&1; rm -rf "$W"; git -C /repo worktree prune
  git -C /repo worktree add --detach "$W" HEAD >/dev/null 2>&1 || exit 2
  git -C "$W" apply "$d/patch.diff" || { echo -e "$n\t-\tPATCH-DOES-NOT-APPLY" | tee -a "$out"; continue; }
  for p in $props; do
    VERIF_REPO="$W" /verif/check "$p" quick > /tmp/benign-check.log 2>&1; rc=$?
    echo -e "$n\t$p\texit=$rc\t$(grep -m1 -E '^(violation|HARNESS)' /tmp/benign-check.log | cut -c1-200)" | tee -a "$out"
  done
done
git -C /repo worktree remove --force "$W" >/dev/null 2>&1; rm -rf "$W" /verif/.build/alt-*; git -C /repo worktree prune
