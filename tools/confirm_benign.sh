#!/bin/bash
# Files a semantics-preserving change written by a sub-agent under /verif/benign/<name>/ and runs the
# property's quick check (and optionally others) against it: the check must stay silent (exit 0).
#   tools/confirm_benign.sh <agent-worktree> <name> <property> [more properties...]
set -u
SRC="$1/SEED_OUT"; NAME="$2"; shift 2
DEST=/verif/benign/$NAME
W=/tmp/vw-benign; TT=/tmp/vw-benign-target
mkdir -p "$DEST"; cp "$SRC/patch.diff" "$DEST/"; cp "$SRC/notes.md" "$DEST/" 2>/dev/null
git -C /repo worktree remove --force "$W" >/dev/null 2>&1; rm -rf "$W"; git -C /repo worktree prune
git -C /repo worktree add --detach "$W" HEAD >/dev/null 2>&1 || exit 2
git -C "$W" apply "$DEST/patch.diff" || { echo "PATCH DOES NOT APPLY"; exit 1; }
( cd "$W" && CARGO_TARGET_DIR="$TT" cargo test --workspace --lib --bins --offline ) > /tmp/benign-tests.log 2>&1; rc_tests=$?
npass=$(grep -E '^test result: ok' /tmp/benign-tests.log | sed -e 's/.*ok\. \([0-9]*\) passed.*/\1/' | paste -sd+ | bc)
echo "unit tests with the patch: exit=$rc_tests passed=$npass"
res="[]"
for p in "$@"; do
  VERIF_REPO="$W" /verif/check "$p" quick > /tmp/benign-check.log 2>&1; rc=$?
  cls=$(grep -m1 -E '^(violation|HARNESS)' /tmp/benign-check.log | cut -c1-300)
  echo "$NAME $p exit=$rc $cls"
  res=$(jq -c --arg p "$p" --argjson rc $rc --arg cls "$cls" '. + [{property:$p, quick_exit:$rc, first_report:$cls}]' <<<"$res")
done
jq -n --arg name "$NAME" --arg base "$(git -C /repo rev-parse --short HEAD)" --argjson t $rc_tests --arg np "${npass:-0}" --argjson res "$res" \
  '{name:$name, kind:"semantics-preserving change (the property still holds); the checks must stay silent", base_commit:$base, unit_tests_with_patch_exit:$t, unit_tests_passed:$np, checks:$res}' > "$DEST/meta.json"
git -C /repo worktree remove --force "$W" >/dev/null 2>&1; rm -rf "$W" /verif/.build/alt-*; git -C /repo worktree prune
