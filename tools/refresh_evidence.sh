#!/bin/bash
# Re-runs the five quick checks against /repo itself (default seed) so that the evidence files
# that get committed come from genuine runs, then validates manifest and evidence.
cd /verif || exit 2
rc=0
for p in C05 C07 C08 C17 C20; do
  /usr/bin/time -f "$p quick %es" ./check $p quick | grep -E '^(OK|VIOLATION|KNOWN-FINDING|HARNESS)' || rc=1
done
python3-vt - <<'PY' || rc=1
import json, jsonschema, glob
jsonschema.validate(json.load(open('/verif/MANIFEST.json')), json.load(open('/root/.vp/MANIFEST.schema.json')))
for f in sorted(glob.glob('/verif/evidence/*.json')):
    d = json.load(open(f)); jsonschema.validate(d, json.load(open('/root/.vp/EVIDENCE.schema.json')))
    c = d['coverage']; print(f, 'ok', d['tier'], 'evaluations', c['evaluations'], 'distinct_nontrivial', c['distinct_nontrivial'], 'samples', len(c['samples']), 'violations', d.get('violations'))
PY
exit $rc
