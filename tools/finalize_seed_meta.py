#!/usr/bin/env python3
"""Completes seeded/*/meta.json: what each change needs in order to manifest (curated from the
sub-agent's notes.md) and which check caught it (from seeded/results.tsv of the last full run)."""
import json, os, csv
NEEDS = {
 "c05-update_raw-same-text-fast-path": "update_raw(t) while the reused sentence already holds text t (>= 2 characters) with known boundaries, e.g. after update_tokenized of the same text",
 "c05-store_tags-resize-without-clear": "a reused sentence that holds tags, then a successful tagged update_tokenized/update_partial_annotation whose input leaves a previously filled tag slot empty",
 "c05-set_default-shortcut-when-already-default": "a rejected input that was consumed up to exactly one space character, on a sentence without tags and without predictor link",
 "c05-recycle_tags-keeps-stale-slots-after-large": "the tag buffer capacity grew past 8192 slots earlier (huge tagged line or reset_tags(3000)), then a small tagged update_tokenized/update_partial_annotation directly afterwards",
 "c05-token-iterator-double-skip-again": "two consecutive skipped tokens (unknown boundaries) before a word boundary, e.g. 'a b|c d|e'",
 "c05-escape-decided-by-previous-char": "a valid input where an escaped backslash is directly followed by a delimiter, or three or more backslashes in a row",
 "c05-every-65536th-update-drops-tags": "65535 (mod 65536) earlier successful updates on one Sentence object, then a tagged update_tokenized/update_partial_annotation",
 "c07-write-bufwriter-never-flushed": "a writer that fails with a hard error inside the last buffered chunk of the serialisation (every offset for models < 8 KiB)",
 "c07-write-bufwriter-after-header": "a writer that fails with a hard error after the 25-byte header, inside the last buffered chunk",
 "c07-write-buffered-writer-large-field-bypass": "a model with one string / byte field of >= 8192 bytes, written with Model::write",
 "c07-decode-missing-tag-section-peek": "a file truncated exactly where the tag-model section starts, or a reader whose chunk boundary / error position falls on that offset",
 "c07-write-staging-writer-512-bypass": "a model with one string / byte field of >= 512 bytes, written with Model::write",
 "c07-block-writer-exact-multiple-of-64k": "a model whose encoded body is exactly k * 65536 bytes long",
 "c08-stale-tag-scores-guarded-reset": "fill_tags with a score-storing predictor, then a failed update / reset_tags(0) / untagged update, then another text and fill_tags (stale tag scores; panic with a second, non-storing predictor)",
 "c08-tag-score-buffer-mutex-two-helpers": "two threads inside fill_tags on one predictor: T1 computes scores, T2 computes scores, T1 assigns tags (between two lock acquisitions)",
 "c08-clear_tags-drops-large-buffer-keeps-n_tags": "more than 4096 tag slots allocated on the sentence directly before the final update_raw",
 "c08-lazy-type-score-table-racy-claim": "a cold predictor with the cached type scorer; two threads needing the same not-yet-computed table entry at the same time",
 "c08-tag-scorers-rely-on-update-to-clear-states": "predict with tagging predictor A, then predict with another tagging predictor B without an update in between, then fill_tags",
 "c08-predict_tags-resize-without-clear": "a token unknown to the tag model ending where an earlier fill_tags (same sentence object) stored tags or tag scores",
 "c08-tag-scorers-hidden-last_state_end": "predict(s1); predict(s2) on the same predictor (other client or thread); s1.fill_tags()",
 "c08-recycle_scratch-keeps-large-buffers-uncleared": "a predicted text of more than ~65 500 characters, then an update to a text of more than ~16 400 characters and predict, on one reused sentence",
 "c08-long-input-memo-unchecked-fingerprint": "two threads sharing a predictor, inputs of >= 1024 characters: one re-predicts its text while the other stores a different long text",
 "c17-dump_items-ignores-is_branch": "a KyTea trie in which a non-entry state carries suffix outputs (real Aho-Corasick output lists)",
 "c17-dictionary-eof-is-empty": "a file truncated exactly at the start of the word dictionary (or of the sub-word dictionary)",
 "c17-dict-weight-memo-key-collision": "dict_n >= 17 and a dictionary word of >= 17 characters colliding with a shorter word's (mask, bucket) key",
 "c17-dict-weight-i16-saturating-sum": "a word that belongs to >= 2 dictionaries whose weights in its length bucket sum beyond the i16 range",
 "c17-global-tags-read-non-interleaved": "n_tags >= 2 with global tag data (a global model in a slot but the last, or global tags in a slot but the first)",
 "c17-sequence-length-guard-65536": "a trie (character n-grams or word dictionary) with more than 65 536 entries",
 "c20-tag-scores-slots-recycled": "predict --predict-tags --tag-scores: a known token on an earlier line and an unknown token ending at the same character index on a later line",
 "c20-wsconst-types-merged-into-mask": "two --wsconst character types and a predicted boundary between adjacent characters of the two types (predict and evaluate)",
 "c20-next_line-strips-all-trailing-cr": "a line whose content ends in CR before the terminator (\\r\\r\\n) or a final line ending in CR without LF",
 "c20-evaluate-reuses-sentence-when-same-byte-length": "evaluate without --no-norm: a reference line with a character the normaliser rewrites without changing its byte length, no ASCII, and a model that tells raw from normalised",
 "c20-repeated-line-fast-path-keyed-on-normalised": "predict (normalising mode): two consecutive lines that differ as raw strings but are equal after normalisation",
 "c20-evaluate-skips-predict-for-single-char": "evaluate --metric word --predict-tags with a one-character reference line",
 "c20-predict-wsconst-merged-mask": "predict with two different --wsconst character types and a boundary between characters of the two types",
 "c05-update_raw-fast-path-on-identical-slice": "the sentence borrows its text (&str), tags are set (fill_tags / reset_tags(n>0)), then update_raw is called with the very same slice (same address and length)",
 "c08-grow-only-pma-states-deserialized-predictor": "a tagging predictor restored with deserialize_from_slice_unchecked, on a sentence object that processed a longer text before",
 "c07-tag-equal-to-token-backreference-reader-path": "a tag model with a tag candidate equal to its token, loaded through Model::read (reader path)",
 "c17-dump_items-ignores-is_branch-again": "a KyTea trie in which a non-entry state carries suffix outputs (real Aho-Corasick output lists)",
 "c20-wsconst-filters-run-on-unnormalised-sentence": "predict (normalising mode) with --wsconst T or O and a dash look-alike (U+FF0D, U+2015, U+2500, U+2013) next to a katakana / other character where the model predicts a boundary",
 "c20-evaluate-needs_normalization-misses-u2500": "evaluate without --no-norm: a reference line containing U+2500 and no ASCII, U+20xx or U+FFxx character",
 "c05-tokenized-slash-guard-and": "a tokenized input starting with an unescaped '/' and containing a second unescaped '/' before any space ('//', '/a/b')",
 "c05-set_default-keeps-n_tags-again": "a sentence that had tags, then any failed update",
 "c05-update_partial-keeps-scores": "predict on the sentence, then a successful update_partial_annotation",
 "c08-update_raw-clears-tags-only-if-linked": "tagged update_tokenized / update_partial_annotation or reset_tags(k>0) without a linked predictor, then update_raw(x); predict (no tag fill, or a model without tags)",
 "c08-tag_scores-resized-not-cleared": "one score-storing predictor: a known token ending at position p on an earlier text, an unknown token ending at p on a later text",
 "c08-tag_scores-cleared-only-when-storing": "a score-storing predictor on text t1, then a non-storing predictor on text t2 (longer: panic; shorter: stale candidates)",
 "c07-read_slice-split_at-panics": "any slice of 0..24 bytes (shorter than the header), e.g. the file left by a write that failed in the header",
 "c07-write-magic-single-write-again": "a writer whose first call accepts fewer than 25 bytes",
 "c07-read-magic-single-read-again": "a reader whose first read returns fewer than 25 bytes",
 "c17-inside-weight-overwritten": "a word of >= 2 characters in >= 2 dictionaries with a non-zero inside weight in a lower-numbered dictionary",
 "c17-type_w-type_n-swapped": "a KyTea file whose type window differs from its maximum type n-gram length",
 "c17-read_u32-short-reads-again": "truncation inside the last u32 the reader consumes, or a BufRead whose chunk boundary falls inside a u32",
 "c20-fill_tags-before-wsconst-filters": "predict --predict-tags --wsconst X (normalising mode): the filter removes a predicted boundary and the right-hand piece is a word the tag model knows",
 "c20-evaluate-matched-not-reset": "evaluate --metric word: a sentence whose last word is wrong directly followed by a sentence whose first word is right",
 "c20-no-norm-score-blocks-swapped": "predict --no-norm --predict-tags --scores --tag-scores on any accepted line",
 "c05-predictor-link-kept-after-megasentence": "a predicted sentence of more than ~1 048 564 characters, then any update_*, then fill_tags without a new predict",
 "c08-recycle-keeps-tags-after-1MiB-text": "a tagged sentence of more than 2^20 bytes, then update_raw(x) and predict without tag fill",
 "c07-read-decode-limit-64MiB": "a model whose in-memory size exceeds 64 MiB (about 1.4 million n-grams, a 20-35 MB file), loaded with Model::read",
 "c17-state-keeps-first-output-only": "a KyTea trie in which a non-entry state carries suffix outputs",
 "c20-line-limit-16MiB-splits-lines": "an input line longer than 16 MiB",
 "c17-convert-tool-single-write-to-encoder": "the real convert_kytea_model binary on a KyTea file whose converted model exceeds 128 KiB",
 "c05-update_raw-identical-slice-keeps-boundaries": "borrowed text, boundaries changed away from Unknown, then update_raw with the very same &str slice",
 "c08-grapheme-filter-buffer-in-sentence": "ConcatGraphemeClustersFilter on a text with a multi-character cluster at index i, later the filter again on a longer text where the predictor puts a boundary at i",
 "c20-wsconst-dedup-by-discriminant": "two different character-type --wsconst values next to each other and a boundary the dropped filter would remove",
 "c20-line-cache-stale-index-after-4096": "one predict process: a line, then more than 4096 distinct lines, then the first line again",
 "c05-tags_tmp-dirty-after-failed-update": "a failed update_tokenized / update_partial_annotation whose error is detected after at least one character was scanned, then (possibly after update_raw calls) a successful tagged update_tokenized / update_partial_annotation on the same object",
 "c05-update_raw-same-text-skips-parse_raw": "update_raw(t) on a sentence that already holds exactly text t with boundaries that are not all Unknown, observed before the next predict",
 "c08-tag_scores-cleared-only-if-storing-two-predictors": "predict + fill_tags with a score-storing predictor on an N-character text, update_raw with a longer text, then predict + fill_tags with a non-storing tagging predictor where a known token ends at index >= N",
 "c08-update_raw-same-text-keeps-tags": "the object carries tags for text x, then update_raw(x) with the identical text, then predict without a tag fill that re-initialises tags",
 "c08-repeat-memo-record-without-recheck": "one predictor shared by >= 2 threads: A predicts the same text X twice in a row, B starts predicting a different text Y while A's second call is inside the scorers; any later predict(Y) restores X's scores",
 "c07-block-writer-retry-restarts-block": "a writer that accepts part of a block (short write) and returns ErrorKind::Interrupted on a later call within the same flush",
 "c07-decode-eof-before-tag_models": "a file truncated exactly at the boundary before the tag_models vector (read and read_slice)",
 "c17-dump_items-first-output-any-state": "a KyTea trie in which a non-entry state carries suffix outputs (fourth variant)",
 "c17-subword-dict-entries-skipped": "a KyTea file with a non-empty sub-word dictionary, truncated inside that section's entry list",
 "c20-predict-wsconst-bitmask-filter": "predict with two or more different --wsconst character types and a predicted boundary between adjacent characters of two selected types",
 "c20-read_line-pops-lone-trailing-cr": "predict: an unterminated last input line that ends in CR (stream ends with byte 0x0D)",
 "c20-evaluate-stale-last-word-tags": "evaluate --metric word: a reference line shorter than some earlier line whose last-word tag comparison has the other outcome (tag error on the long line's last word, or tagged long line then untagged short line)",
 "c20-evaluate-fill_tags-before-wsconst-streaming": "evaluate --metric word --predict-tags --wsconst X: the filter merges two predicted words and the merged word's tags differ from its last piece's",
 "c07-read-magic-fill_buf-single-read": "Model::read from a healthy reader whose first read() returns fewer than 25 bytes (header checked through a single fill_buf)",
 "c17-bias-only-if-header-flag": "a KyTea file whose word-segmentation model header has the bias flag byte 0 while biases[0] of the feature lookup is non-zero",
 "c20-predict-repeat-fast-path-normalised-compare": "predict without --no-norm: two consecutive lines that differ as raw strings but normalise to the same text",
 "c08-lazy-token-length-bitset-nonzero-means-built": "a tagging predictor on which no fill_tags has completed, two threads in fill_tags at once, tagged tokens of at least two different byte lengths",
}
res = {}
p = "/verif/seeded/results.tsv"
if os.path.exists(p):
    for row in csv.reader(open(p), delimiter="\t"):
        if len(row) >= 3 and row[0] != "BASELINE":
            res.setdefault(row[0], []).append({"property": row[1], "quick_exit": row[2].replace("exit=", ""), "class": row[5] if len(row) > 5 else ""})
for d in sorted(os.listdir("/verif/seeded")):
    mp = f"/verif/seeded/{d}/meta.json"
    if not os.path.exists(mp):
        continue
    m = json.load(open(mp))
    m["needs_to_manifest"] = NEEDS.get(d, m.get("needs_to_manifest", "see notes.md"))
    if d in res:
        m["quick_check_results"] = res[d]
    if d == "c08-long-input-memo-unchecked-fingerprint":
        m["thorough_check_result"] = "caught by ./check C08 thorough (long-text Miri batch): miri:thread-result-mismatch@predict, Miri seed 13 of 16"
    json.dump(m, open(mp, "w"), indent=1, ensure_ascii=False)
    if d not in NEEDS:
        print("no curated text for", d)
print("done")
