#!/bin/bash
# Sensitivity run: applies each mutant of /verif/mutants (or /verif/seeded/*/patch.diff) to a scratch
# worktree of /repo outside /repo and /verif, optionally runs the repository's own test suite there,
# then runs the quick check of each property expected to catch it. Expects exit 1 (VIOLATION).
#   tools/sens.sh [--with-tests] [--seeded] [name-substring]
set -u
WITH_TESTS=0; SEEDED=0; PAT=""
for a in "$@"; do case "$a" in --with-tests) WITH_TESTS=1;; --seeded) SEEDED=1;; *) PAT="$a";; esac; done
W=/tmp/vw-sens
TT=/tmp/vw-sens-target
cleanup() { git -C /repo worktree remove --force "$W" >/dev/null 2>&1; rm -rf "$W" "$TT" /verif/.build/alt-*; git -C /repo worktree prune; }
trap cleanup EXIT
cleanup
git -C /repo worktree add --detach "$W" HEAD >/dev/null 2>&1 || { echo "cannot create worktree"; exit 2; }
OUT=/verif/mutants/results.tsv
[ $SEEDED = 1 ] && OUT=/verif/seeded/results.tsv
[ -z "$PAT" ] && : > "$OUT"
list() {
  if [ $SEEDED = 1 ]; then
    for d in /verif/seeded/*/; do n=$(basename "$d"); [ -f "$d/patch.diff" ] && echo -e "$n\t$(jq -r '.property' "$d/meta.json")\t$d/patch.diff"; done
  else
    while IFS=$'\t' read -r n props; do echo -e "$n\t$props\t/verif/mutants/$n.diff"; done < /verif/mutants/index.tsv
  fi
}
# baseline: the unmodified worktree must be silent for every property
if [ -z "$PAT" ]; then
  for p in C05 C07 C08 C17 C20; do
    VERIF_REPO="$W" /verif/check "$p" quick > /tmp/vw-sens.log 2>&1; rc=$?
    echo -e "BASELINE\t$p\texit=$rc" | tee -a "$OUT"
  done
fi
list | while IFS=$'\t' read -r name props diff; do
  case "$name" in *"$PAT"*) ;; *) continue;; esac
  git -C "$W" checkout -q -- . && git -C "$W" clean -fdq
  if ! git -C "$W" apply "$diff" 2>/tmp/vw-sens.err; then echo -e "$name\t-\tPATCH-DOES-NOT-APPLY" | tee -a "$OUT"; continue; fi
  tests="-"
  if [ $WITH_TESTS = 1 ]; then
    if ( cd "$W" && CARGO_TARGET_DIR="$TT" cargo test --workspace --no-fail-fast --offline >/tmp/vw-sens-test.log 2>&1 ); then tests="suite-pass"; else tests="suite-FAIL"; fi
  fi
  for p in ${props//,/ }; do
    t0=$(date +%s)
    VERIF_REPO="$W" /verif/check "$p" quick > /tmp/vw-sens.log 2>&1; rc=$?
    cls=$(grep -m1 '^violation' /tmp/vw-sens.log | sed -e 's/^violation class=\([^ ]*\).*/\1/')
    [ $rc = 2 ] && cls=$(grep -m1 'HARNESS-ERROR' /tmp/vw-sens.log | cut -c1-120)
    echo -e "$name\t$p\texit=$rc\t$tests\t$(( $(date +%s) - t0 ))s\t$cls" | tee -a "$OUT"
  done
done

