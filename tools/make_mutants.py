#!/usr/bin/env python3
"""Generates the sensitivity mutants (one unified diff each) against the current /repo HEAD.
Each entry: (name, properties expected to catch it, file, old, new). Written to /verif/mutants/."""
import subprocess, sys, os, tempfile, shutil

REPO = os.environ.get("VERIF_REPO", "/repo")
OUT = "/verif/mutants"

M = [
 ("c05-set_default-keeps-n_tags", ["C05"], "vaporetto/src/sentence.rs",
  "        self.tags.clear();\n        self.n_tags = 0;\n        self.predictor.take();\n        self.str_to_char_pos.clear();",
  "        self.tags.clear();\n        self.predictor.take();\n        self.str_to_char_pos.clear();"),
 ("c05-update_raw-keeps-tags", ["C05"], "vaporetto/src/sentence.rs",
  "        self.predictor.take();\n        self.tags.clear();\n        self.n_tags = 0;\n        Ok(())",
  "        self.predictor.take();\n        self.n_tags = 0;\n        Ok(())"),
 ("c05-update_tokenized-keeps-scores", ["C05"], "vaporetto/src/sentence.rs",
  "            self.set_default();\n            return Err(e);\n        }\n        self.boundary_scores.clear();\n        self.score_padding = 0;\n        self.char_pma_states.clear();\n        self.type_pma_states.clear();\n        self.predictor.take();\n        self.n_tags = self.tags.len() / self.char_types.len();\n        Ok(())\n    }\n\n    fn parse_partial_annotation(",
  "            self.set_default();\n            return Err(e);\n        }\n        self.score_padding = 0;\n        self.char_pma_states.clear();\n        self.type_pma_states.clear();\n        self.predictor.take();\n        self.n_tags = self.tags.len() / self.char_types.len();\n        Ok(())\n    }\n\n    fn parse_partial_annotation("),
 ("c05-partial-error-skips-set_default", ["C05"], "vaporetto/src/sentence.rs",
  "            &mut self.tags,\n        ) {\n            self.set_default();\n            return Err(e);\n        }\n        self.boundary_scores.clear();\n        self.score_padding = 0;\n        self.char_pma_states.clear();\n        self.type_pma_states.clear();\n        self.predictor.take();\n        self.n_tags = self.tags.len() / self.char_types.len();\n        Ok(())\n    }\n\n    /// Gets a text without any annotation.",
  "            &mut self.tags,\n        ) {\n            if !e.to_string().contains(\"invalid annotation\") {\n                self.set_default();\n            }\n            return Err(e);\n        }\n        self.boundary_scores.clear();\n        self.score_padding = 0;\n        self.char_pma_states.clear();\n        self.type_pma_states.clear();\n        self.predictor.take();\n        self.n_tags = self.tags.len() / self.char_types.len();\n        Ok(())\n    }\n\n    /// Gets a text without any annotation."),
 ("c05-partial-keeps-n_tags", ["C05"], "vaporetto/src/sentence.rs",
  "        self.predictor.take();\n        self.n_tags = self.tags.len() / self.char_types.len();\n        Ok(())\n    }\n\n    /// Gets a text without any annotation.",
  "        self.predictor.take();\n        self.n_tags = self.n_tags.max(self.tags.len() / self.char_types.len());\n        Ok(())\n    }\n\n    /// Gets a text without any annotation."),
 ("c05-set_default-keeps-str_to_char_pos", ["C05", "C08"], "vaporetto/src/sentence.rs",
  "        self.str_to_char_pos.clear();\n        self.str_to_char_pos.push(0);\n        self.str_to_char_pos.push(1);\n        self.char_to_str_pos.clear();",
  "        self.char_to_str_pos.clear();"),
 ("c08-predict-accumulates-scores", ["C08"], "vaporetto/src/predictor.rs",
  "        sentence.boundary_scores.clear();\n        sentence.boundary_scores.resize(",
  "        sentence.boundary_scores.resize("),
 ("c08-update_raw-keeps-predictor-link", ["C08"], "vaporetto/src/sentence.rs",
  "        self.type_pma_states.clear();\n        self.predictor.take();\n        self.tags.clear();\n        self.n_tags = 0;",
  "        self.type_pma_states.clear();\n        self.tags.clear();\n        self.n_tags = 0;"),
 ("c08-char-tag-scorer-keeps-states", ["C08"], "vaporetto/src/char_scorer/boundary_tag_scorer.rs",
  "        sentence.char_pma_states.clear();\n        sentence.char_pma_states.resize(sentence.len(), u32::MAX);",
  "        sentence.char_pma_states.resize(sentence.len(), u32::MAX);"),
 ("c08-predict_tags-keeps-tags", ["C08"], "vaporetto/src/predictor.rs",
  "        sentence.n_tags = self.data.n_tags;\n        sentence.tags.clear();\n",
  "        sentence.n_tags = self.data.n_tags;\n"),
 ("c08-reset_tags-keeps-old", ["C08", "C05"], "vaporetto/src/sentence.rs",
  "        self.tags.clear();\n        self.tags.resize(n_tags * self.len(), None);\n        self.n_tags = n_tags;",
  "        self.tags.resize(n_tags * self.len(), None);\n        self.n_tags = n_tags;"),
 ("c07-read-magic-single-read", ["C07"], "vaporetto/src/model.rs",
  "        rdr.read_exact(&mut magic)?;",
  "        let _ = rdr.read(&mut magic)?;"),
 ("c07-read_slice-no-magic-check", ["C07"], "vaporetto/src/model.rs",
  "        if !slice.starts_with(MODEL_MAGIC) {",
  "        if slice.len() < MODEL_MAGIC.len() {"),
 ("c07-write-magic-single-write", ["C07"], "vaporetto/src/model.rs",
  "        wtr.write_all(MODEL_MAGIC)?;",
  "        let _ = wtr.write(MODEL_MAGIC)?;"),
 ("c07-read_slice-rest-offset", ["C07"], "vaporetto/src/model.rs",
  "        Ok((Self(data), &slice[MODEL_MAGIC.len() + size..]))",
  "        Ok((Self(data), &slice[size..]))"),
 ("c07-read-eof-gives-empty-tag-models", ["C07"], "vaporetto/src/model.rs",
  "        Ok(Self(bincode::decode_from_std_read(&mut rdr, config)?))",
  "        let mut body = vec![];\n        rdr.read_to_end(&mut body)?;\n        // tolerate a missing tag-model section\n        if let Ok((data, _)) = bincode::decode_from_slice(&body, config) {\n            return Ok(Self(data));\n        }\n        body.push(0);\n        Ok(Self(bincode::decode_from_slice(&body, config)?.0))"),
 ("c17-unwrap-in-reader", ["C17"], "vaporetto/src/kytea_model.rs",
  "            let is_branch = utils::read_u8(&mut rdr)? != 0;",
  "            let is_branch = utils::read_u8(&mut rdr).unwrap() != 0;"),
 ("c17-read_u32-single-read", ["C17"], "vaporetto/src/utils.rs",
  "    let mut buf = [0; 4];\n    rdr.read_exact(&mut buf)?;\n    Ok(u32::from_le_bytes(buf))",
  "    let mut buf = [0; 4];\n    let _ = rdr.read(&mut buf)?;\n    Ok(u32::from_le_bytes(buf))"),
 ("c17-char-weight-slice-short", ["C17"], "vaporetto/src/kytea_model.rs",
  "            let weight_size = config.char_w as usize * 2 - char_ngram.len() + 1;",
  "            let weight_size = config.char_w as usize * 2 - char_ngram.len();"),
 ("c17-swap-H-T", ["C17"], "vaporetto/src/kytea_model.rs",
  "                    b'H' => CharacterType::Hiragana as u8,\n                    b'T' => CharacterType::Katakana as u8,",
  "                    b'T' => CharacterType::Hiragana as u8,\n                    b'H' => CharacterType::Katakana as u8,"),
 ("c17-dict-offset-without-j", ["C17"], "vaporetto/src/kytea_model.rs",
  "                        let offset = 3 * config.dict_n as usize * j + 3 * idx;",
  "                        let offset = 3 * idx + 0 * j;"),
 ("c17-in_dict-mask-shift", ["C17"], "vaporetto/src/kytea_model.rs",
  "                    if (data.in_dict >> j) & 1 == 1 {",
  "                    if (data.in_dict >> (j + 1)) & 1 == 1 {"),
 ("c20-no-newline-for-rejected-line", ["C20"], "predict/src/main.rs",
  "                if args.tag_scores {\n                    print_tag_scores(&s, &mut out)?;\n                }\n            } else {\n                out.write_all(b\"\\n\")?;\n            }\n            if is_tty {\n                out.flush()?;\n            }\n        }\n    }\n\n    let duration",
  "                if args.tag_scores {\n                    print_tag_scores(&s, &mut out)?;\n                }\n            }\n            if is_tty {\n                out.flush()?;\n            }\n        }\n    }\n\n    let duration"),
 ("c20-reset_tags-dropped", ["C20"], "predict/src/main.rs",
  "                s_orig.reset_tags(s.n_tags());\n",
  ""),
 ("c20-norm-path-writes-normalized", ["C20"], "predict/src/main.rs",
  "                s_orig.write_tokenized_text(&mut buf);",
  "                s.write_tokenized_text(&mut buf);"),
 ("c20-evaluate-swaps-fp-fn", ["C20"], "evaluate/src/main.rs",
  "                    } else if h == CharacterBoundary::WordBoundary {\n                        n_fp += 1;\n                    } else {\n                        n_fn += 1;\n                    }",
  "                    } else if h == CharacterBoundary::WordBoundary {\n                        n_fn += 1;\n                    } else {\n                        n_fp += 1;\n                    }"),
 ("c20-stale-boundaries-on-short-line", ["C20"], "predict/src/main.rs",
  "                s_orig.boundaries_mut().copy_from_slice(s.boundaries());",
  "                if s.boundaries().len() > 1 {\n                    s_orig.boundaries_mut().copy_from_slice(s.boundaries());\n                }"),
 ("c08-thread-atomic-len-two-sites", ["C08"], "vaporetto/src/predictor.rs",
  "        sentence.score_padding = WEIGHT_FIXED_LEN - 1;\n        sentence.boundary_scores.clear();\n        sentence.boundary_scores.resize(\n            sentence.score_padding * 2 + sentence.len() - 1,\n            self.data.bias,\n        );",
  "        static LAST_LEN: core::sync::atomic::AtomicUsize = core::sync::atomic::AtomicUsize::new(0);\n        LAST_LEN.store(sentence.len(), core::sync::atomic::Ordering::SeqCst);\n        sentence.score_padding = WEIGHT_FIXED_LEN - 1;\n        sentence.boundary_scores.clear();\n        sentence.boundary_scores.resize(\n            sentence.score_padding * 2 + LAST_LEN.load(core::sync::atomic::Ordering::SeqCst) - 1,\n            self.data.bias,\n        );"),
 ("c08-thread-unsynchronised-scratch", ["C08"], "vaporetto/src/predictor.rs",
  "        sentence.score_padding = WEIGHT_FIXED_LEN - 1;\n        sentence.boundary_scores.clear();\n        sentence.boundary_scores.resize(\n            sentence.score_padding * 2 + sentence.len() - 1,\n            self.data.bias,\n        );",
  "        struct Scratch(core::cell::UnsafeCell<usize>);\n        unsafe impl Sync for Scratch {}\n        static SCRATCH: Scratch = Scratch(core::cell::UnsafeCell::new(0));\n        unsafe { *SCRATCH.0.get() = sentence.len() };\n        sentence.score_padding = WEIGHT_FIXED_LEN - 1;\n        sentence.boundary_scores.clear();\n        sentence.boundary_scores.resize(\n            sentence.score_padding * 2 + unsafe { *SCRATCH.0.get() } - 1,\n            self.data.bias,\n        );"),
 ("c05-tokenized-redundant-escape-changes-char", ["C05"], "vaporetto/src/sentence.rs",
  "                // escaped character or other character\n                (_, _) => {\n                    escape = false;\n                    if c == '\\0' {\n                        return Err(VaporettoError::invalid_argument(\n                            \"tokenized_text\",",
  "                // escaped character or other character\n                (_, c) => {\n                    let c = if escape && c == 'a' { 'A' } else { c };\n                    escape = false;\n                    if c == '\\0' {\n                        return Err(VaporettoError::invalid_argument(\n                            \"tokenized_text\","),
 ("c17-convert-tool-forgets-finish", ["C17"], "convert_kytea_model/src/main.rs",
  "    model.write(&mut f)?;\n    f.finish()?;\n",
  "    model.write(&mut f)?;\n    drop(f);\n"),
 ("c17-convert-tool-unwraps-read", ["C17"], "convert_kytea_model/src/main.rs",
  "    let model = KyteaModel::read(&mut f)?;",
  "    let model = KyteaModel::read(&mut f).unwrap();"),
]

def main():
    os.makedirs(OUT, exist_ok=True)
    for f in os.listdir(OUT):
        if f.endswith(".diff") or f == "index.tsv":
            os.remove(os.path.join(OUT, f))
    idx = []
    for name, props, path, old, new in M:
        full = os.path.join(REPO, path)
        src = open(full, encoding="utf-8").read()
        if src.count(old) != 1:
            print(f"SKIP {name}: anchor found {src.count(old)} times", file=sys.stderr)
            continue
        mut = src.replace(old, new)
        with tempfile.NamedTemporaryFile("w", suffix=".rs", delete=False, encoding="utf-8") as t:
            t.write(mut)
        r = subprocess.run(["diff", "-u", "--label", "a/" + path, "--label", "b/" + path, full, t.name], capture_output=True, text=True)
        os.unlink(t.name)
        open(os.path.join(OUT, name + ".diff"), "w", encoding="utf-8").write(r.stdout)
        idx.append(f"{name}\t{','.join(props)}")
    open(os.path.join(OUT, "index.tsv"), "w").write("\n".join(idx) + "\n")
    print(f"{len(idx)} mutants written to {OUT}")

main()
