/* LD_PRELOAD interposer: a seeded, deterministic schedule of benign stream behaviour at the
 * read(2)/write(2)/writev(2) boundary of a single-threaded process.
 *
 *   VERIF_IO_SEED   decimal u64; every decision = f(seed, call index), nothing else
 *   VERIF_IO_TRACE  path; at exit one summary line and the sizes returned by reads on fd 0
 *
 * Decisions: short count (1..3, 1..7 or 1..64 bytes depending on the run's intensity), EINTR
 * (never twice in a row on the same fd), or pass-through. fd 2 is never touched. Hard errors are never injected.
 */
#define _GNU_SOURCE
#include <dlfcn.h>
#include <errno.h>
#include <fcntl.h>
#include <stdint.h>
#include <stdio.h>
#include <stdlib.h>
#include <string.h>
#include <sys/syscall.h>
#include <sys/uio.h>
#include <unistd.h>

static uint64_t seed;
static int inited;
static uint64_t call_idx;
static uint64_t n_read, n_write, n_short_read, n_short_write, n_eintr_read, n_eintr_write, n_writev;
static uint64_t trace_hash = 1469598103934665603ULL;
static int last_eintr_fd = -1;
#define MAXSZ 4096
static uint32_t stdin_sizes[MAXSZ];
static unsigned n_stdin_sizes;
static char trace_path[512];

static uint64_t mix(uint64_t x) {
  x += 0x9e3779b97f4a7c15ULL;
  x = (x ^ (x >> 30)) * 0xbf58476d1ce4e5b9ULL;
  x = (x ^ (x >> 27)) * 0x94d049bb133111ebULL;
  return x ^ (x >> 31);
}

static void th(uint64_t v) {
  for (int i = 0; i < 8; i++) {
    trace_hash ^= (v >> (8 * i)) & 0xff;
    trace_hash *= 1099511628211ULL;
  }
}

static void dump(void) {
  if (!trace_path[0]) return;
  int fd = (int)syscall(SYS_open, trace_path, O_WRONLY | O_CREAT | O_TRUNC, 0644);
  if (fd < 0) return;
  char buf[256];
  int n = snprintf(buf, sizeof buf,
                   "calls=%llu reads=%llu writes=%llu writev=%llu short_reads=%llu short_writes=%llu eintr_reads=%llu eintr_writes=%llu hash=%016llx\n",
                   (unsigned long long)call_idx, (unsigned long long)n_read, (unsigned long long)n_write,
                   (unsigned long long)n_writev, (unsigned long long)n_short_read, (unsigned long long)n_short_write,
                   (unsigned long long)n_eintr_read, (unsigned long long)n_eintr_write, (unsigned long long)trace_hash);
  syscall(SYS_write, fd, buf, n);
  for (unsigned i = 0; i < n_stdin_sizes; i++) {
    n = snprintf(buf, sizeof buf, "%u\n", stdin_sizes[i]);
    syscall(SYS_write, fd, buf, n);
  }
  syscall(SYS_close, fd);
}

static void init(void) {
  if (inited) return;
  inited = 1;
  const char *s = getenv("VERIF_IO_SEED");
  seed = s ? strtoull(s, 0, 10) : 0;
  const char *t = getenv("VERIF_IO_TRACE");
  if (t && strlen(t) < sizeof trace_path) strcpy(trace_path, t);
  atexit(dump);
}

/* 0 = pass, >0 = short count, -1 = EINTR. The top bits of the seed select the intensity of
 * the run (swarm style): how often transfers are shortened and how small they get. */
static int decide(int fd) {
  uint64_t h = mix(seed ^ mix(call_idx++));
  unsigned intensity = (unsigned)(seed >> 61) & 3; /* seeds are < 2^63 */
  unsigned k = h & 15;
  unsigned short_below = intensity == 0 ? 3 : intensity == 1 ? 6 : intensity == 2 ? 11 : 13;
  unsigned maxlen = intensity == 3 ? 3 : intensity == 2 ? 64 : 7;
  if (k < short_below) return 1 + (int)((h >> 8) % maxlen);
  if (k < short_below + 2 && last_eintr_fd != fd) return -1;
  return 0;
}

ssize_t read(int fd, void *buf, size_t count) {
  init();
  if (fd == 2 || count == 0) return syscall(SYS_read, fd, buf, count);
  int d = decide(fd);
  n_read++;
  if (d < 0) {
    last_eintr_fd = fd;
    n_eintr_read++;
    th(0x100 | (unsigned)fd);
    errno = EINTR;
    return -1;
  }
  last_eintr_fd = -1;
  size_t want = count;
  if (d > 0 && (size_t)d < count) want = (size_t)d;
  ssize_t r = syscall(SYS_read, fd, buf, want);
  if (r > 0 && want < count) n_short_read++;
  th((uint64_t)fd << 32 | (uint64_t)(r & 0xffffffff));
  if (fd == 0 && r >= 0 && n_stdin_sizes < MAXSZ) stdin_sizes[n_stdin_sizes++] = (uint32_t)r;
  return r;
}

ssize_t write(int fd, const void *buf, size_t count) {
  init();
  if (fd == 2 || count == 0) return syscall(SYS_write, fd, buf, count);
  int d = decide(fd);
  n_write++;
  if (d < 0) {
    last_eintr_fd = fd;
    n_eintr_write++;
    th(0x200 | (unsigned)fd);
    errno = EINTR;
    return -1;
  }
  last_eintr_fd = -1;
  size_t want = count;
  if (d > 0 && (size_t)d < count) want = (size_t)d;
  ssize_t r = syscall(SYS_write, fd, buf, want);
  if (r > 0 && want < count) n_short_write++;
  th((uint64_t)fd << 40 | (uint64_t)(r & 0xffffffff));
  return r;
}

ssize_t writev(int fd, const struct iovec *iov, int iovcnt) {
  init();
  if (fd == 2 || iovcnt <= 0) return syscall(SYS_writev, fd, iov, iovcnt);
  n_writev++;
  /* degrade to a (possibly short) write of the first non-empty buffer: legal for writev */
  for (int i = 0; i < iovcnt; i++) {
    if (iov[i].iov_len > 0) return write(fd, iov[i].iov_base, iov[i].iov_len);
  }
  return 0;
}
